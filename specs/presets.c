/* Lattice presets (C04: every preset adds exactly the operator written in its documentation; C20: argument checks).
 * Part 1: the term factories Lattice::Term::Presets::* (loop-free).  Part 2: LatticePresets::add*.
 * Spec expressions: the doc comments of include/pomerol/LatticePresets.h (operator strings), enum spin {down, up};
 * S+ = c^+_up c_down, S- = c^+_down c_up for the two undocumented factories SplusSminus / SminusSplus.
 * A Term = N, four vectors of size N (fixed arrays of capacity 6, stubs/termvec.h), Value.
 */
#include "../stubs/common.h"
#include "../stubs/cplx.h"
#include "../stubs/strlabel.h"
#include "../stubs/termvec.h"
#include <stdlib.h>
//@include types_common.inc
//@include types_lattice.inc
//@type std::vector<bool> => VecBool ptr
//@type std::vector<std::(__cxx11::)?basic_string<char> ?>|std::vector<std::string> => VecLabel ptr
//@type std::vector<unsigned short> => VecUS ptr
//@type std::_Bit_reference|std::vector<bool>::reference => BitRef val
//@free abs(double) => d_abs
//@free Level => Presets_Level
//@free SplusSminus => Presets_SplusSminus
//@free Hopping(label_t,label_t,double,ushort,ushort,ushort,ushort) => Presets_Hopping7
//@free NupNdown(label_t,label_t,double,ushort,ushort,ushort,ushort) => Presets_NupNdown7
//@free NupNdown(label_t,double,ushort,ushort,ushort,ushort) => Presets_NupNdown6
//@free Hopping(label_t,label_t,double,ushort,ushort) => Presets_Hopping5
//@free NupNdown(label_t,double,ushort,ushort) => Presets_NupNdown4
//@free NupNdown(label_t,double,ushort,ushort,ushort) => Presets_NupNdown5
//@free NupNdown(label_t,double,ushort) => Presets_NupNdown5_dflt
//@free Spinflip => Presets_Spinflip
//@free PairHopping => Presets_PairHopping
//@free SminusSplus => Presets_SminusSplus
//@tu src/pomerol/Lattice.cpp
//@enum spin
//@struct Pomerol::Lattice::Site
#include "../stubs/sitemap.h"
//@struct Pomerol::Lattice::Term

/* std::vector<bool>::operator[] (non-const) yields a proxy: a pointer to the element */
typedef _Bool *BitRef;
#undef VecBool_at
#define VecBool_at(v, i) (*(BitRef[1]){ TV_AT(v, i) })
#define BitRef_assign(r, val) (**(r) = (val))
/* std::string::operator=(const char*) with the literal "": the empty string is the id 0 */
#define label_t_assign(p, lit) (*(p) = 0)

/* `new Term(N)`: a fresh object (malloc) initialised by the EXTRACTED constructor Term::Term(unsigned) */
//@function Pomerol::Lattice::Term::Term(unsigned int) as Lattice_Term_mk_ctor1
//@loop 1
__CPROVER_assigns(i, self->OperatorSequence.d, self->SiteLabels.d, self->Spins.d, self->Orbitals.d)
__CPROVER_loop_invariant(i <= N && N <= TV_MAX && self->OperatorSequence.size == N && self->SiteLabels.size == N && self->Spins.size == N && self->Orbitals.size == N)
__CPROVER_decreases(N - i)
//@end
unsigned long g_term_allocs;
static inline struct Lattice_Term *Lattice_Term_new1(unsigned int N)
{
  struct Lattice_Term *p = malloc(sizeof(struct Lattice_Term));
  __CPROVER_assume(p != (struct Lattice_Term *)0);     /* ASSUMED: operator new does not return null (it throws bad_alloc) */
  Lattice_Term_mk_init1(p, N);
  g_term_allocs++;
  return p;
}
//@tu src/pomerol/LatticePresets.cpp
/* a call with defaulted trailing arguments is printed with its explicit arguments only; the defaults are those of the declaration
 * (LatticePresets.h: NupNdown(Label, Value, orbital, spin1 = up, spin2 = down)) */
#define Presets_NupNdown5_dflt(l, v, o) Presets_NupNdown5((l), (v), (o), up, down)

/* ---- spec vocabulary: one operator c^+ / c with (label, orbital, spin) at position p of a term */
#define OP_IS(T, p, dag, l, o, s) ((T)->OperatorSequence.d[p] == (dag) && (T)->SiteLabels.d[p] == (l) && (T)->Orbitals.d[p] == (o) && (T)->Spins.d[p] == (s))
#define TERM_SHAPE(T, n) ((T)->N == (n) && (T)->OperatorSequence.size == (n) && (T)->SiteLabels.size == (n) && (T)->Orbitals.size == (n) && (T)->Spins.size == (n))
/* v c^+_{l0 o0 s0} c_{l1 o1 s1} */
#define TERM2_IS(T, v, l0,o0,s0, l1,o1,s1) (TERM_SHAPE(T, 2) && D_SAME((T)->Value, v) && OP_IS(T,0,1,l0,o0,s0) && OP_IS(T,1,0,l1,o1,s1))
/* v X0 X1 X2 X3 with dagger pattern d0..d3 */
#define TERM4_IS(T, v, d0,l0,o0,s0, d1,l1,o1,s1, d2,l2,o2,s2, d3,l3,o3,s3) (TERM_SHAPE(T, 4) && D_SAME((T)->Value, v) && \
   OP_IS(T,0,d0,l0,o0,s0) && OP_IS(T,1,d1,l1,o1,s1) && OP_IS(T,2,d2,l2,o2,s2) && OP_IS(T,3,d3,l3,o3,s3))
/* documented operator strings */
#define IS_HOPPING(T, v, i,j, a,b, s,t)   TERM2_IS(T, v, i,a,s, j,b,t)                                  /* t c^+_{i a s} c_{j b t} */
#define IS_LEVEL(T, v, i, a, s)           TERM2_IS(T, v, i,a,s, i,a,s)                                  /* eps c^+_{i a s} c_{i a s} */
#define IS_NN(T, v, i,j, a,b, s,t)        TERM4_IS(T, v, 1,i,a,s, 0,i,a,s, 1,j,b,t, 0,j,b,t)            /* U n_{i a s} n_{j b t} */
#define IS_SPINFLIP(T, v, i, a,b, s,t)    TERM4_IS(T, v, 1,i,a,s, 1,i,b,t, 0,i,b,s, 0,i,a,t)            /* J c^+_{ias} c^+_{ibt} c_{ibs} c_{iat} */
#define IS_PAIRHOP(T, v, i, a,b, s,t)     TERM4_IS(T, v, 1,i,a,s, 1,i,a,t, 0,i,b,s, 0,i,b,t)            /* J c^+_{ias} c^+_{iat} c_{ibs} c_{ibt} */
#define IS_SPSM(T, v, i,j, a)             TERM4_IS(T, v, 1,i,a,up, 0,i,a,down, 1,j,a,down, 0,j,a,up)    /* S+_i S-_j */
#define IS_SMSP(T, v, i,j, a)             TERM4_IS(T, v, 1,i,a,down, 0,i,a,up, 1,j,a,up, 0,j,a,down)    /* S-_i S+_j */
#define RET __CPROVER_return_value
#define FRESH_TERM (!VERIF_thrown && __CPROVER_is_fresh(RET, sizeof(struct Lattice_Term)))
#define FACTORY_PRE __CPROVER_requires(!VERIF_thrown)

/* ================= Part 1: factories ================= */
//@function Pomerol::Lattice::Term::Presets::Level(std::__cxx11::basic_string<char, std::char_traits<char>, std::allocator<char> > const&, double, unsigned short, unsigned short) as Presets_Level
//@contract
FACTORY_PRE
__CPROVER_assigns(VERIF_thrown, g_term_allocs)
__CPROVER_ensures(FRESH_TERM && IS_LEVEL(RET, Value, Label, orbital, spin))
//@end

//@function Pomerol::Lattice::Term::Presets::Hopping(std::__cxx11::basic_string<char, std::char_traits<char>, std::allocator<char> > const&, std::__cxx11::basic_string<char, std::char_traits<char>, std::allocator<char> > const&, double, unsigned short, unsigned short, unsigned short, unsigned short) as Presets_Hopping7
//@contract
FACTORY_PRE
__CPROVER_assigns(VERIF_thrown, g_term_allocs)
__CPROVER_ensures(FRESH_TERM && IS_HOPPING(RET, Value, Label1, Label2, orbital1, orbital2, spin1, spin2))
//@end

//@function Pomerol::Lattice::Term::Presets::Hopping(std::__cxx11::basic_string<char, std::char_traits<char>, std::allocator<char> > const&, std::__cxx11::basic_string<char, std::char_traits<char>, std::allocator<char> > const&, double, unsigned short, unsigned short) as Presets_Hopping5
//@contract
FACTORY_PRE
__CPROVER_assigns(VERIF_thrown, g_term_allocs)
__CPROVER_ensures(FRESH_TERM && IS_HOPPING(RET, Value, Label1, Label2, orbital, orbital, spin, spin))
//@end

//@function Pomerol::Lattice::Term::Presets::NupNdown(std::__cxx11::basic_string<char, std::char_traits<char>, std::allocator<char> > const&, std::__cxx11::basic_string<char, std::char_traits<char>, std::allocator<char> > const&, double, unsigned short, unsigned short, unsigned short, unsigned short) as Presets_NupNdown7
//@contract
FACTORY_PRE
__CPROVER_assigns(VERIF_thrown, g_term_allocs)
/* the degenerate case (same site, orbital and spin: n*n = n) returns the Level term */
__CPROVER_ensures(FRESH_TERM && ((Label1 == Label2 && orbital1 == orbital2 && spin1 == spin2) ? IS_LEVEL(RET, Value, Label1, orbital1, spin1) : IS_NN(RET, Value, Label1, Label2, orbital1, orbital2, spin1, spin2)))
//@end

//@function Pomerol::Lattice::Term::Presets::NupNdown(std::__cxx11::basic_string<char, std::char_traits<char>, std::allocator<char> > const&, double, unsigned short, unsigned short, unsigned short, unsigned short) as Presets_NupNdown6
//@contract
FACTORY_PRE
__CPROVER_assigns(VERIF_thrown, g_term_allocs)
/* the degenerate case (same site, orbital and spin: n*n = n) returns the Level term */
__CPROVER_ensures(FRESH_TERM && ((orbital1 == orbital2 && spin1 == spin2) ? IS_LEVEL(RET, Value, Label, orbital1, spin1) : IS_NN(RET, Value, Label, Label, orbital1, orbital2, spin1, spin2)))
//@end

//@function Pomerol::Lattice::Term::Presets::NupNdown(std::__cxx11::basic_string<char, std::char_traits<char>, std::allocator<char> > const&, double, unsigned short, unsigned short) as Presets_NupNdown4
//@contract
FACTORY_PRE
__CPROVER_assigns(VERIF_thrown, g_term_allocs)
/* U n_{i a up} n_{i a' down} */
__CPROVER_ensures(FRESH_TERM && IS_NN(RET, Value, Label, Label, orbital1, orbital2, up, down))
//@end

//@function Pomerol::Lattice::Term::Presets::NupNdown(std::__cxx11::basic_string<char, std::char_traits<char>, std::allocator<char> > const&, double, unsigned short, unsigned short, unsigned short) as Presets_NupNdown5
//@contract
FACTORY_PRE
__CPROVER_assigns(VERIF_thrown, g_term_allocs)
/* the degenerate case (same site, orbital and spin: n*n = n) returns the Level term */
__CPROVER_ensures(FRESH_TERM && ((spin1 == spin2) ? IS_LEVEL(RET, Value, Label, Orbital, spin1) : IS_NN(RET, Value, Label, Label, Orbital, Orbital, spin1, spin2)))
//@end

//@maythrow Presets_Spinflip
//@function Pomerol::Lattice::Term::Presets::Spinflip(std::__cxx11::basic_string<char, std::char_traits<char>, std::allocator<char> > const&, double, unsigned short, unsigned short, unsigned short, unsigned short) as Presets_Spinflip
//@contract
FACTORY_PRE
__CPROVER_assigns(VERIF_thrown, g_term_allocs)
/* C20: undefined (throws) iff equal orbitals or equal spins */
__CPROVER_ensures(VERIF_thrown == (orbital1 == orbital2 || spin1 == spin2))
__CPROVER_ensures(!VERIF_thrown ==> (FRESH_TERM && IS_SPINFLIP(RET, Value, Label, orbital1, orbital2, spin1, spin2)))
//@end

//@maythrow Presets_PairHopping
//@function Pomerol::Lattice::Term::Presets::PairHopping(std::__cxx11::basic_string<char, std::char_traits<char>, std::allocator<char> > const&, double, unsigned short, unsigned short, unsigned short, unsigned short) as Presets_PairHopping
//@contract
FACTORY_PRE
__CPROVER_assigns(VERIF_thrown, g_term_allocs)
__CPROVER_ensures(VERIF_thrown == (orbital1 == orbital2 || spin1 == spin2))
__CPROVER_ensures(!VERIF_thrown ==> (FRESH_TERM && IS_PAIRHOP(RET, Value, Label, orbital1, orbital2, spin1, spin2)))
//@end

//@function Pomerol::Lattice::Term::Presets::SplusSminus(std::__cxx11::basic_string<char, std::char_traits<char>, std::allocator<char> > const&, std::__cxx11::basic_string<char, std::char_traits<char>, std::allocator<char> > const&, double, unsigned short) as Presets_SplusSminus
//@contract
FACTORY_PRE
__CPROVER_assigns(VERIF_thrown, g_term_allocs)
__CPROVER_ensures(FRESH_TERM && IS_SPSM(RET, Value, Label1, Label2, orbital))
//@end

//@function Pomerol::Lattice::Term::Presets::SminusSplus(std::__cxx11::basic_string<char, std::char_traits<char>, std::allocator<char> > const&, std::__cxx11::basic_string<char, std::char_traits<char>, std::allocator<char> > const&, double, unsigned short) as Presets_SminusSplus
//@contract
FACTORY_PRE
__CPROVER_assigns(VERIF_thrown, g_term_allocs)
__CPROVER_ensures(FRESH_TERM && IS_SMSP(RET, Value, Label1, Label2, orbital))
//@end
//@harness h_Presets_Level enforce=Presets_Level props=C04 min_obl=776 reach=1 objbits=8 timeout=60
void h_Presets_Level(void) { label_t l1, l2; double v; unsigned short o1, o2, s1, s2; Presets_Level(l1, v, o1, s1); REACH("exit"); }
//@harness h_Presets_Hopping7 enforce=Presets_Hopping7 props=C04 min_obl=776 reach=1 objbits=8 timeout=60
void h_Presets_Hopping7(void) { label_t l1, l2; double v; unsigned short o1, o2, s1, s2; Presets_Hopping7(l1, l2, v, o1, o2, s1, s2); REACH("exit"); }
//@harness h_Presets_Hopping5 enforce=Presets_Hopping5 props=C04 min_obl=776 reach=1 objbits=8 timeout=60
void h_Presets_Hopping5(void) { label_t l1, l2; double v; unsigned short o1, o2, s1, s2; Presets_Hopping5(l1, l2, v, o1, s1); REACH("exit"); }
//@harness h_Presets_NupNdown7 enforce=Presets_NupNdown7 props=C04,C20 min_obl=1113 reach=1 objbits=8 timeout=60
void h_Presets_NupNdown7(void) { label_t l1, l2; double v; unsigned short o1, o2, s1, s2; Presets_NupNdown7(l1, l2, v, o1, o2, s1, s2); REACH("exit"); }
//@harness h_Presets_NupNdown6 enforce=Presets_NupNdown6 props=C04,C20 min_obl=1113 reach=1 objbits=8 timeout=60
void h_Presets_NupNdown6(void) { label_t l1, l2; double v; unsigned short o1, o2, s1, s2; Presets_NupNdown6(l1, v, o1, o2, s1, s2); REACH("exit"); }
//@harness h_Presets_NupNdown4 enforce=Presets_NupNdown4 props=C04 min_obl=1024 reach=1 objbits=8 timeout=60
void h_Presets_NupNdown4(void) { label_t l1, l2; double v; unsigned short o1, o2, s1, s2; Presets_NupNdown4(l1, v, o1, o2); REACH("exit"); }
//@harness h_Presets_NupNdown5 enforce=Presets_NupNdown5 props=C04,C20 min_obl=1113 reach=1 objbits=8 timeout=60
void h_Presets_NupNdown5(void) { label_t l1, l2; double v; unsigned short o1, o2, s1, s2; Presets_NupNdown5(l1, v, o1, s1, s2); REACH("exit"); }
//@harness h_Presets_Spinflip enforce=Presets_Spinflip props=C04,C20 min_obl=825 reach=1 objbits=8 timeout=60
void h_Presets_Spinflip(void) { label_t l1, l2; double v; unsigned short o1, o2, s1, s2; Presets_Spinflip(l1, v, o1, o2, s1, s2); REACH("exit"); }
//@harness h_Presets_PairHopping enforce=Presets_PairHopping props=C04,C20 min_obl=825 reach=1 objbits=8 timeout=60
void h_Presets_PairHopping(void) { label_t l1, l2; double v; unsigned short o1, o2, s1, s2; Presets_PairHopping(l1, v, o1, o2, s1, s2); REACH("exit"); }
//@harness h_Presets_SplusSminus enforce=Presets_SplusSminus props=C04 min_obl=823 reach=1 objbits=8 timeout=60
void h_Presets_SplusSminus(void) { label_t l1, l2; double v; unsigned short o1, o2, s1, s2; Presets_SplusSminus(l1, l2, v, o1); REACH("exit"); }
//@harness h_Presets_SminusSplus enforce=Presets_SminusSplus props=C04 min_obl=876 reach=1 objbits=8 timeout=60
void h_Presets_SminusSplus(void) { label_t l1, l2; double v; unsigned short o1, o2, s1, s2; Presets_SminusSplus(l1, l2, v, o1); REACH("exit"); }

/* ================= Part 2: LatticePresets::add* =================
 * The factories are replaced by their contracts (fresh Term with the documented content); the sinks
 * TermStorage::addTerm (presets that bypass Lattice::addTerm) and Lattice::addTerm (addHopping) are MONITORS:
 *   soundness  every term handed over belongs to the documented set of the preset under verification (g_pc.mode) with the
 *              documented amplitude, and (C20) satisfies Lattice::addTerm's validity predicate (known site, orbital and
 *              spin inside the site's range);
 *   completeness  the ghost member of the documented set (g_pc.gkind, ga, gz1, gz2: arbitrary) is handed over exactly
 *              g_pc.exp times (1; 0 if its amplitude is zero: zero-amplitude terms are ignored).
 */
//@struct Pomerol::Lattice::TermStorage only=MaxTermOrder
//@struct Pomerol::Lattice
/* In the add* harnesses the factories are represented by their CONTRACTS proved in Part 1 (same ensures clauses), written as
 * stubs that fill ONE global term instead of dfcc's replace-call-with-contract: a heap object per call made symbolic execution
 * 100x slower.  ASSUMED = exactly the proved post-condition of the factory; the term is consumed by the monitor at once. */
struct Lattice_Term g_ft; struct Lattice_Term nondet_Term(void);
#define FT(pred) ({ g_ft = nondet_Term(); __CPROVER_assume(pred); &g_ft; })
#define PresetsC_Level(l, v, o, s) FT(IS_LEVEL(&g_ft, v, l, o, s))
#define PresetsC_Hopping7(l1, l2, v, o1, o2, s1, s2) FT(IS_HOPPING(&g_ft, v, l1, l2, o1, o2, s1, s2))
#define NN_POST(l1, l2, v, o1, o2, s1, s2) (((l1) == (l2) && (o1) == (o2) && (s1) == (s2)) ? IS_LEVEL(&g_ft, v, l1, o1, s1) : IS_NN(&g_ft, v, l1, l2, o1, o2, s1, s2))
#define PresetsC_NupNdown7(l1, l2, v, o1, o2, s1, s2) FT(NN_POST(l1, l2, v, o1, o2, s1, s2))
#define PresetsC_NupNdown6(l, v, o1, o2, s1, s2) FT(NN_POST(l, l, v, o1, o2, s1, s2))
/* the remaining overloads (not called by any add* function today; a change that switches to one of them must reach the monitors, not break extraction):
 * each assumes exactly the post-condition its Part 1 harness proves (h_Presets_Hopping5, h_Presets_NupNdown4, h_Presets_NupNdown5); a call with
 * defaulted spins is printed with its explicit arguments only and gets the defaults of the declaration (spin1 = up, spin2 = down) */
#define PresetsC_Hopping5(l1, l2, v, o, s) FT(IS_HOPPING(&g_ft, v, l1, l2, o, o, s, s))
#define PresetsC_NupNdown4(l, v, o1, o2) FT(IS_NN(&g_ft, v, l, l, o1, o2, up, down))
#define PresetsC_NupNdown5(l, v, o, s1, s2) FT(((s1) == (s2)) ? IS_LEVEL(&g_ft, v, l, o, s1) : IS_NN(&g_ft, v, l, l, o, o, s1, s2))
#define PresetsC_NupNdown5_dflt(l, v, o) PresetsC_NupNdown5(l, v, o, up, down)
#define PresetsC_SplusSminus(l1, l2, v, o) FT(IS_SPSM(&g_ft, v, l1, l2, o))
#define PresetsC_SminusSplus(l1, l2, v, o) FT(IS_SMSP(&g_ft, v, l1, l2, o))
/* the two factories that may throw (contract proved in Part 1: throws iff equal orbitals or equal spins, else the documented term) */
#define FT_THROWS(cond, pred) ({ __CPROVER_assert(!VERIF_thrown, "factory pre-condition: no pending exception"); g_ft = nondet_Term(); if (cond) VERIF_thrown = 1; else __CPROVER_assume(pred); &g_ft; })
#define PresetsC_Spinflip(l, v, o1, o2, s1, s2) FT_THROWS((o1) == (o2) || (s1) == (s2), IS_SPINFLIP(&g_ft, v, l, o1, o2, s1, s2))
#define PresetsC_PairHopping(l, v, o1, o2, s1, s2) FT_THROWS((o1) == (o2) || (s1) == (s2), IS_PAIRHOP(&g_ft, v, l, o1, o2, s1, s2))
//@free Spinflip => PresetsC_Spinflip
//@free PairHopping => PresetsC_PairHopping
//@maythrow PresetsC_Spinflip PresetsC_PairHopping
//@free Level => PresetsC_Level
//@free SplusSminus => PresetsC_SplusSminus
//@free SminusSplus => PresetsC_SminusSplus
//@free Hopping(label_t,label_t,double,ushort,ushort,ushort,ushort) => PresetsC_Hopping7
//@free NupNdown(label_t,label_t,double,ushort,ushort,ushort,ushort) => PresetsC_NupNdown7
//@free NupNdown(label_t,double,ushort,ushort,ushort,ushort) => PresetsC_NupNdown6
//@free Hopping(label_t,label_t,double,ushort,ushort) => PresetsC_Hopping5
//@free NupNdown(label_t,double,ushort,ushort) => PresetsC_NupNdown4
//@free NupNdown(label_t,double,ushort,ushort,ushort) => PresetsC_NupNdown5
//@free NupNdown(label_t,double,ushort) => PresetsC_NupNdown5_dflt
enum { PM_COULOMBS = 1, PM_LEVEL, PM_MAGNET, PM_SZSZ, PM_SS, PM_HOPPING, PM_HOPPING8, PM_HOPDIAG, PM_HOPDIAG2 };
struct PC { int mode; label_t l1, l2; double a1, a2; int gkind; unsigned short ga, gz1, gz2; unsigned long exp; long n; unsigned short gb; } g_pc;   /* constant during a call */
struct PMS { unsigned long calls, hits; } g_pm;                                                                                 /* monitor state */
#define KNOWN_(l) (0 <= SITEPOS(l) && SITEPOS(l) < g_pc.n)
#define ORB_(l) SM_orb(SITEPOS(l))
#define SPN_(l) SM_spin(SITEPOS(l))
#define OPVALID(T, p) (KNOWN_((T)->SiteLabels.d[p]) && (T)->Orbitals.d[p] < ORB_((T)->SiteLabels.d[p]) && (T)->Spins.d[p] < SPN_((T)->SiteLabels.d[p]))
static _Bool pm_valid(const struct Lattice_Term *t)
{
  return (t->N == 2 && OPVALID(t, 0) && OPVALID(t, 1)) || (t->N == 4 && OPVALID(t, 0) && OPVALID(t, 1) && OPVALID(t, 2) && OPVALID(t, 3));
}
/* documented amplitudes (LatticePresets.h) */
#define AMP_HALF(x) D_DIV(x, 2.0)
#define AMP_QUARTER(x) D_DIV(x, 4.0)
#define AMP_MQUARTER(x) D_DIV(D_NEG(x), 4.0)
static _Bool pm_sound(const struct Lattice_Term *t)
{
  label_t i = g_pc.l1, j = g_pc.l2;
  unsigned short a = t->Orbitals.d[0], s = t->Spins.d[0], s2 = t->Spins.d[2];
  double mq = AMP_MQUARTER(g_pc.a1), q = AMP_QUARTER(g_pc.a1), h = AMP_HALF(g_pc.a1);     /* each spec quantity once */
  switch (g_pc.mode) {
  case PM_COULOMBS:   /* SUM_{a, s>s'} U n_{ias} n_{ias'} + SUM_{a,s} eps n_{ias} */
    return (g_pc.a2 != 0.0 && IS_LEVEL(t, g_pc.a2, i, a, s)) || (g_pc.a1 != 0.0 && IS_NN(t, g_pc.a1, i, i, a, a, s, s2) && s > s2);
  case PM_LEVEL:      /* SUM_{a,s} eps c^+_{ias} c_{ias} */
    return g_pc.a2 != 0.0 && IS_LEVEL(t, g_pc.a2, i, a, s);
  case PM_MAGNET:     /* SUM_a mH 1/2 (n_{ia up} - n_{ia down}) */
    return IS_LEVEL(t, h, i, a, up) || IS_LEVEL(t, AMP_HALF(D_NEG(g_pc.a1)), i, a, down);
  case PM_SZSZ:       /* SUM_a J 1/2(n_{ia up} - n_{ia down}) 1/2(n_{ja up} - n_{ja down}); n n = n on the same site */
  case PM_SS:         /* SUM_a J S_ia S_ja = SzSz + J/2 (S+_i S-_j + S-_i S+_j) */
    return IS_NN(t, mq, i, j, a, a, up, down) || IS_NN(t, mq, i, j, a, a, down, up) ||
           (i != j && (IS_NN(t, q, i, j, a, a, up, up) || IS_NN(t, q, i, j, a, a, down, down))) ||
           (i == j && (IS_LEVEL(t, q, i, a, up) || IS_LEVEL(t, q, i, a, down))) ||
           (g_pc.mode == PM_SS && (IS_SPSM(t, h, i, j, a) || IS_SMSP(t, h, i, j, a)));
  case PM_HOPPING:    /* SUM_{s a} t c^+_{ias} c_{jas} and its Hermitian conjugate (real t) */
    return IS_HOPPING(t, g_pc.a1, i, j, a, a, s, s) || IS_HOPPING(t, g_pc.a1, j, i, a, a, s, s);
  case PM_HOPPING8:   /* t c^+_{i a s} c_{j b s'} and its Hermitian conjugate t c^+_{j b s'} c_{i a s} (real t) */
    return IS_HOPPING(t, g_pc.a1, i, j, g_pc.ga, g_pc.gb, g_pc.gz1, g_pc.gz2) || IS_HOPPING(t, g_pc.a1, j, i, g_pc.gb, g_pc.ga, g_pc.gz2, g_pc.gz1);
  }
  return 0;
}
/* the ghost member of the documented set */
static _Bool pm_ghost(const struct Lattice_Term *t)
{
  label_t i = g_pc.l1, j = g_pc.l2; unsigned short a = g_pc.ga; int k = g_pc.gkind;
  double mq = AMP_MQUARTER(g_pc.a1), q = AMP_QUARTER(g_pc.a1), h = AMP_HALF(g_pc.a1);
  switch (g_pc.mode) {
  case PM_COULOMBS: return k == 0 ? IS_LEVEL(t, g_pc.a2, i, a, g_pc.gz1) : IS_NN(t, g_pc.a1, i, i, a, a, g_pc.gz1, g_pc.gz2);
  case PM_LEVEL:    return IS_LEVEL(t, g_pc.a2, i, a, g_pc.gz1);
  case PM_MAGNET:   return k == 0 ? IS_LEVEL(t, AMP_HALF(g_pc.a1), i, a, up) : IS_LEVEL(t, AMP_HALF(D_NEG(g_pc.a1)), i, a, down);
  case PM_SZSZ: case PM_SS:
    if (k == 0) return IS_NN(t, mq, i, j, a, a, up, down);
    if (k == 1) return IS_NN(t, mq, i, j, a, a, down, up);
    if (k == 2) return i != j ? IS_NN(t, q, i, j, a, a, up, up) : IS_LEVEL(t, q, i, a, up);
    if (k == 3) return i != j ? IS_NN(t, q, i, j, a, a, down, down) : IS_LEVEL(t, q, i, a, down);
    if (k == 4) return IS_SPSM(t, h, i, j, a);
    return IS_SMSP(t, h, i, j, a);
  case PM_HOPPING:  return k == 0 ? IS_HOPPING(t, g_pc.a1, i, j, a, a, g_pc.gz1, g_pc.gz1) : IS_HOPPING(t, g_pc.a1, j, i, a, a, g_pc.gz1, g_pc.gz1);
  case PM_HOPPING8: return k == 0 ? IS_HOPPING(t, g_pc.a1, i, j, g_pc.ga, g_pc.gb, g_pc.gz1, g_pc.gz2) : IS_HOPPING(t, g_pc.a1, j, i, g_pc.gb, g_pc.ga, g_pc.gz2, g_pc.gz1);
  }
  return 0;
}
static void pm_monitor(struct Lattice_Term *T)
{
  struct Lattice_Term c = *T;
  __CPROVER_assert(pm_valid(&c), "C20: every term handed to the storage refers to known sites and to orbitals / spins inside their range");
  __CPROVER_assert(pm_sound(&c), "C04: every term handed to the storage belongs to the documented sum, with the documented amplitude");
  /* signature of known finding D14 (addMagnetization stores +-mH where the documentation says +-mH/2): apart from that factor 2 the term
   * is the documented one -- any OTHER deviation of addMagnetization fails this assertion and is reported as a new violation */
  if (g_pc.mode == PM_MAGNET)
    __CPROVER_assert(pm_sound(&c) || IS_LEVEL(&c, g_pc.a1, g_pc.l1, c.Orbitals.d[0], up) || IS_LEVEL(&c, D_NEG(g_pc.a1), g_pc.l1, c.Orbitals.d[0], down),
                     "C04: addMagnetization term is the documented one up to the known factor 2 (D14 signature)");
  struct PMS s = g_pm; s.calls++; if (pm_ghost(&c)) { s.hits++; REACH("ghost_term"); } g_pm = s;
}
/* ---- mode PM_COULOMBP (Kanamori interaction, LatticePresets::addCoulombP), compiled with -DPM_KANAMORI INSTEAD of the generic monitor above
 * (same three checks; everything the monitor reads is a scalar of the constant ghost struct g_pk pinned in `requires`: no uninterpreted
 * function and no read of the site array per call -- six call sites in five nested loops).  Documented operator (LatticePresets.h):
 *   U SUM_{a, s>s'} n_{ias} n_{ias'}  +  U' SUM_{a!=a', s>s'} n_{ias} n_{ia's'}  +  (U'-J)/2 SUM_{a!=a', s} n_{ias} n_{ia's}
 *   - J SUM_{a!=a', s>s'} ( c^+_{ias} c^+_{ia's'} c_{ia's} c_{ias'}  +  c^+_{ia's} c^+_{ia's'} c_{ias} c_{ias'} )   [+ SUM_{a,s} eps n_{ias}: parameter Level]
 * Zero amplitudes: the Level, U, U' and J sums are not stored when their amplitude is zero ("zero-amplitude terms are ignored");
 * the (U'-J)/2 sum carries no such filter in the documentation or the code: its members are demanded once each whatever the amplitude. */
enum { PK_LEVEL = 0, PK_SAMESPIN, PK_U, PK_UP, PK_SPINFLIP, PK_PAIRHOP };
struct PK { label_t l; double U, Up, J, eps, half, mJ;     /* half = (U'-J)/2, mJ = -J */
            _Bool known; unsigned short no, ns;            /* the site is known; its numbers of orbitals and spins */
            int gkind; unsigned short ga, gb, gz1, gz2; unsigned long exp; } g_pk;      /* constant during a call */
#define OPVALID_K(T, p) ((T)->SiteLabels.d[p] == g_pk.l && (T)->Orbitals.d[p] < g_pk.no && (T)->Spins.d[p] < g_pk.ns)
static _Bool pk_valid(const struct Lattice_Term *t)
{
  return g_pk.known && ((t->N == 2 && OPVALID_K(t, 0) && OPVALID_K(t, 1)) || (t->N == 4 && OPVALID_K(t, 0) && OPVALID_K(t, 1) && OPVALID_K(t, 2) && OPVALID_K(t, 3)));
}
static _Bool pk_sound(const struct Lattice_Term *t)
{
  label_t i = g_pk.l;
  unsigned short a = t->Orbitals.d[0], a1 = t->Orbitals.d[1], a2 = t->Orbitals.d[2], s = t->Spins.d[0], s1 = t->Spins.d[1], s2 = t->Spins.d[2];
  return (g_pk.eps != 0.0 && IS_LEVEL(t, g_pk.eps, i, a, s)) ||
         (g_pk.U != 0.0 && IS_NN(t, g_pk.U, i, i, a, a, s, s2) && s > s2) ||                              /* U n_{ias} n_{ias'}, s > s' */
         (g_pk.Up != 0.0 && IS_NN(t, g_pk.Up, i, i, a, a2, s, s2) && a != a2 && s > s2) ||                /* U' n_{ias} n_{ia's'}, a != a', s > s' */
         (IS_NN(t, g_pk.half, i, i, a, a2, s, s) && a != a2) ||                                           /* (U'-J)/2 n_{ias} n_{ia's}, a != a' */
         (g_pk.J != 0.0 && IS_SPINFLIP(t, g_pk.mJ, i, a, a1, s, s1) && a != a1 && s > s1) ||              /* -J c^+_{ias} c^+_{ia's'} c_{ia's} c_{ias'} */
         (g_pk.J != 0.0 && IS_PAIRHOP(t, g_pk.mJ, i, a, a2, s, s1) && a != a2 && s > s1);                 /* -J c^+_{ia's} c^+_{ia's'} c_{ias} c_{ias'} (a' = ga, a = gb) */
}
static _Bool pk_ghost(const struct Lattice_Term *t)
{
  label_t i = g_pk.l; unsigned short a = g_pk.ga, b = g_pk.gb, s = g_pk.gz1, s2 = g_pk.gz2;
  switch (g_pk.gkind) {
  case PK_LEVEL:    return IS_LEVEL(t, g_pk.eps, i, a, s);
  case PK_SAMESPIN: return IS_NN(t, g_pk.half, i, i, a, b, s, s);
  case PK_U:        return IS_NN(t, g_pk.U, i, i, a, a, s, s2);
  case PK_UP:       return IS_NN(t, g_pk.Up, i, i, a, b, s, s2);
  case PK_SPINFLIP: return IS_SPINFLIP(t, g_pk.mJ, i, a, b, s, s2);
  case PK_PAIRHOP:  return IS_PAIRHOP(t, g_pk.mJ, i, a, b, s, s2);
  }
  return 0;
}
static void pk_monitor(struct Lattice_Term *T)
{
  if (VERIF_thrown) return;          /* the factory call that produces the argument threw: addTerm is not executed */
  struct Lattice_Term c = *T;
  __CPROVER_assert(pk_valid(&c), "C20: every term handed to the storage refers to the known site and to orbitals / spins inside its range");
  __CPROVER_assert(pk_sound(&c), "C04: every term handed to the storage belongs to one of the documented Kanamori sums, with the documented amplitude");
  struct PMS s = g_pm; s.calls++; if (pk_ghost(&c)) {
    s.hits++;
    if (g_pk.gkind == PK_LEVEL) REACH("ghost_level"); if (g_pk.gkind == PK_SAMESPIN) REACH("ghost_samespin"); if (g_pk.gkind == PK_U) REACH("ghost_U");
    if (g_pk.gkind == PK_UP) REACH("ghost_Up"); if (g_pk.gkind == PK_SPINFLIP) REACH("ghost_spinflip"); if (g_pk.gkind == PK_PAIRHOP) REACH("ghost_pairhop");
  }
  g_pm = s;
}
/* ---- modes PM_HOPDIAG / PM_HOPDIAG2 (-DPM_HOPDIAG_MON): sums of hopping terms built from calls of the 8-argument addHopping with Spin1 == Spin2.
 * PM_HOPDIAG:  addHopping(L,i,j,t,a,a') = SUM_s t c^+_{ias} c_{ja's} + h.c.   constants g_pc.l1, l2, a1 = t, ga = a, gb = a'; ghost member: spin gz1
 * PM_HOPDIAG2: addHopping(L,i,j,t)      = SUM_{s a} t c^+_{ias} c_{jas} + h.c. constants g_pc.l1, l2, a1 = t; ghost member: orbital ga (= gb), spin gz1
 * gkind 0: the term, 1: its Hermitian conjugate. */
static void ph_monitor(struct Lattice_Term *T)
{
  struct Lattice_Term c = *T;
  unsigned short s = c.Spins.d[0];
  unsigned short a = g_pc.mode == PM_HOPDIAG ? g_pc.ga : c.Orbitals.d[0], b = g_pc.mode == PM_HOPDIAG ? g_pc.gb : c.Orbitals.d[0];
  __CPROVER_assert(g_pc.mode == PM_HOPDIAG || g_pc.mode == PM_HOPDIAG2, "monitor variant matches the mode");
  __CPROVER_assert(pm_valid(&c), "C20: every term handed to the lattice refers to known sites and to orbitals / spins inside their range");
  __CPROVER_assert(IS_HOPPING(&c, g_pc.a1, g_pc.l1, g_pc.l2, a, b, s, s) || IS_HOPPING(&c, g_pc.a1, g_pc.l2, g_pc.l1, b, a, s, s),
                   "C04: every term handed to the lattice is t c^+_{ias} c_{ja's} or its Hermitian conjugate for some spin s (PM_HOPDIAG2: some orbital a = a' and some spin s)");
  struct PMS m = g_pm; m.calls++;
  if (g_pc.gkind == 0 ? IS_HOPPING(&c, g_pc.a1, g_pc.l1, g_pc.l2, g_pc.ga, g_pc.gb, g_pc.gz1, g_pc.gz1) : IS_HOPPING(&c, g_pc.a1, g_pc.l2, g_pc.l1, g_pc.gb, g_pc.ga, g_pc.gz1, g_pc.gz1)) { m.hits++; REACH("ghost_term"); }
  g_pm = m;
}
/* ---- addSzSz / addSS (-DPM_EXCH): the documented sets of the generic modes PM_SZSZ / PM_SS above, read from scalars of the constant ghost struct g_px
 * (amplitudes -J/4, J/4, J/2 and the sizes of the two sites pinned in `requires`): no uninterpreted function and no read of the site array per call.
 *   addSzSz: SUM_a J 1/2(n_{ia up} - n_{ia down}) 1/2(n_{ja up} - n_{ja down})  (n n = n on the same site);  addSS (ss): + J/2 (S+_i S-_j + S-_i S+_j) */
struct PX { label_t l1, l2; double J, mq, q, h; _Bool ss, k1, k2; unsigned short no1, ns1, no2, ns2; int gkind; unsigned short ga; unsigned long exp; } g_px;
#define OPVALID_X(T, p) (((T)->SiteLabels.d[p] == g_px.l1 && g_px.k1 && (T)->Orbitals.d[p] < g_px.no1 && (T)->Spins.d[p] < g_px.ns1) || \
                         ((T)->SiteLabels.d[p] == g_px.l2 && g_px.k2 && (T)->Orbitals.d[p] < g_px.no2 && (T)->Spins.d[p] < g_px.ns2))
static _Bool px_valid(const struct Lattice_Term *t)
{
  return (t->N == 2 && OPVALID_X(t, 0) && OPVALID_X(t, 1)) || (t->N == 4 && OPVALID_X(t, 0) && OPVALID_X(t, 1) && OPVALID_X(t, 2) && OPVALID_X(t, 3));
}
static _Bool px_sound(const struct Lattice_Term *t)
{
  label_t i = g_px.l1, j = g_px.l2; unsigned short a = t->Orbitals.d[0];
  return IS_NN(t, g_px.mq, i, j, a, a, up, down) || IS_NN(t, g_px.mq, i, j, a, a, down, up) ||
         (i != j && (IS_NN(t, g_px.q, i, j, a, a, up, up) || IS_NN(t, g_px.q, i, j, a, a, down, down))) ||
         (i == j && (IS_LEVEL(t, g_px.q, i, a, up) || IS_LEVEL(t, g_px.q, i, a, down))) ||
         (g_px.ss && (IS_SPSM(t, g_px.h, i, j, a) || IS_SMSP(t, g_px.h, i, j, a)));
}
static _Bool px_ghost(const struct Lattice_Term *t)
{
  label_t i = g_px.l1, j = g_px.l2; unsigned short a = g_px.ga; int k = g_px.gkind;
  if (k == 0) return IS_NN(t, g_px.mq, i, j, a, a, up, down);
  if (k == 1) return IS_NN(t, g_px.mq, i, j, a, a, down, up);
  if (k == 2) return i != j ? IS_NN(t, g_px.q, i, j, a, a, up, up) : IS_LEVEL(t, g_px.q, i, a, up);
  if (k == 3) return i != j ? IS_NN(t, g_px.q, i, j, a, a, down, down) : IS_LEVEL(t, g_px.q, i, a, down);
  if (k == 4) return IS_SPSM(t, g_px.h, i, j, a);
  return IS_SMSP(t, g_px.h, i, j, a);
}
static void px_monitor(struct Lattice_Term *T)
{
  struct Lattice_Term c = *T;
  __CPROVER_assert(px_valid(&c), "C20: every term handed to the storage refers to the two known sites and to orbitals / spins inside their ranges");
  __CPROVER_assert(px_sound(&c), "C04: every term handed to the storage belongs to the documented sum, with the documented amplitude");
  struct PMS s = g_pm; s.calls++; if (px_ghost(&c)) { s.hits++; REACH("ghost_term"); } g_pm = s;
}
#ifdef PM_KANAMORI
#define PM_SINK pk_monitor
#elif defined(PM_EXCH)
#define PM_SINK px_monitor
#elif defined(PM_HOPDIAG_MON)
#define PM_SINK ph_monitor
#else
#define PM_SINK pm_monitor
#endif
int Lattice_TermStorage_addTerm(struct Lattice_TermStorage *ts, struct Lattice_Term *T) { PM_SINK(T); return 0; }   /* L->Terms->addTerm(T) */
void Lattice_addTerm(struct Lattice *L, struct Lattice_Term *T) { PM_SINK(T); }                                       /* L->addTerm(T) (validated there: specs/lattice.c) */

#define PL (&L->Sites)
#define K1 (0 <= SITEPOS(Label1) && SITEPOS(Label1) < PL->n)
#define K2 (0 <= SITEPOS(Label2) && SITEPOS(Label2) < PL->n)
#define O1 SM_orb(SITEPOS(Label1))
#define O2 SM_orb(SITEPOS(Label2))
#define Z1 SM_spin(SITEPOS(Label1))
#define Z2 SM_spin(SITEPOS(Label2))
#define ADD_PRE(md) __CPROVER_requires(__CPROVER_is_fresh(L, sizeof(*L)) && SiteMap_wf_nosums(PL) && !VERIF_thrown && g_pc.mode == (md) && g_pc.n == PL->n && g_pm.calls == 0 && g_pm.hits == 0)
#define GH(before) ((before) ? g_pm.hits == 0 : g_pm.hits == g_pc.exp)
//@maythrow LatticePresets_addCoulombS LatticePresets_addLevel LatticePresets_addMagnetization LatticePresets_addSzSz LatticePresets_addSS LatticePresets_addHopping4 LatticePresets_addHopping8

/* ---- addLevel */
#define Label1 Label
//@function Pomerol::LatticePresets::addLevel(Pomerol::Lattice*, std::__cxx11::basic_string<char, std::char_traits<char>, std::allocator<char> > const&, double) as LatticePresets_addLevel
//@contract
ADD_PRE(PM_LEVEL)
__CPROVER_requires(g_pc.l1 == Label && D_SAME(g_pc.a2, Level))
/* ghost member: eps n_{i ga gz1} */
__CPROVER_requires(K1 ==> (g_pc.ga < O1 && g_pc.gz1 < Z1))
__CPROVER_requires(g_pc.exp == (Level != 0.0 ? 1UL : 0UL))
__CPROVER_assigns(VERIF_thrown, g_pm, g_ft)
__CPROVER_ensures(VERIF_thrown == !K1)
__CPROVER_ensures(VERIF_thrown ==> g_pm.calls == 0)
__CPROVER_ensures(!VERIF_thrown ==> g_pm.hits == g_pc.exp)
//@loop 1
__CPROVER_assigns(i, g_pm, g_ft)
__CPROVER_loop_invariant(i <= Orbitals && !VERIF_thrown && GH(i <= g_pc.ga))
__CPROVER_decreases(Orbitals - i)
//@loop 2
__CPROVER_assigns(z, g_pm, g_ft)
__CPROVER_loop_invariant(z <= Spins && !VERIF_thrown && (i == g_pc.ga ? GH(z <= g_pc.gz1) : g_pm.hits == __CPROVER_loop_entry(g_pm.hits)))
__CPROVER_decreases(Spins - z)
//@end
//@harness h_addLevel enforce=LatticePresets_addLevel props=C04,C20 min_obl=4463 reach=3 objbits=8 timeout=120
void h_addLevel(void) { struct Lattice *L; label_t l; double e; LatticePresets_addLevel(L, l, e); if (VERIF_thrown) REACH("thrown"); REACH("exit"); }

/* ---- addCoulombS */
//@function Pomerol::LatticePresets::addCoulombS(Pomerol::Lattice*, std::__cxx11::basic_string<char, std::char_traits<char>, std::allocator<char> > const&, double, double) as LatticePresets_addCoulombS
//@contract
ADD_PRE(PM_COULOMBS)
__CPROVER_requires(g_pc.l1 == Label && D_SAME(g_pc.a1, U) && D_SAME(g_pc.a2, Level))
/* ghost member: kind 0: eps n_{i ga gz1};  kind 1: U n_{i ga gz1} n_{i ga gz2}, gz1 > gz2 */
__CPROVER_requires(K1 ==> (g_pc.ga < O1 && g_pc.gz1 < Z1 && (g_pc.gkind == 0 || (g_pc.gkind == 1 && g_pc.gz2 < g_pc.gz1))))
__CPROVER_requires(g_pc.exp == ((g_pc.gkind == 0 ? Level != 0.0 : U != 0.0) ? 1UL : 0UL))
__CPROVER_assigns(VERIF_thrown, g_pm, g_ft)
__CPROVER_ensures(VERIF_thrown == !K1)
__CPROVER_ensures(VERIF_thrown ==> g_pm.calls == 0)
__CPROVER_ensures(!VERIF_thrown ==> g_pm.hits == g_pc.exp)
//@loop 1
__CPROVER_assigns(i, g_pm, g_ft)
__CPROVER_loop_invariant(i <= Orbitals && !VERIF_thrown && GH(i <= g_pc.ga))
__CPROVER_decreases(Orbitals - i)
//@loop 2
__CPROVER_assigns(z1, g_pm, g_ft)
__CPROVER_loop_invariant(z1 <= Spins && !VERIF_thrown && (i == g_pc.ga ? GH(z1 <= g_pc.gz1) : g_pm.hits == __CPROVER_loop_entry(g_pm.hits)))
__CPROVER_decreases(Spins - z1)
//@loop 3
__CPROVER_assigns(z2, g_pm, g_ft)
__CPROVER_loop_invariant(z2 <= z1 && !VERIF_thrown && ((i == g_pc.ga && z1 == g_pc.gz1 && g_pc.gkind == 1) ? GH(z2 <= g_pc.gz2) : g_pm.hits == __CPROVER_loop_entry(g_pm.hits)))
__CPROVER_decreases(z1 - z2)
//@end
//@harness h_addCoulombS enforce=LatticePresets_addCoulombS props=C04,C20 min_obl=4638 reach=3 objbits=8 timeout=400
void h_addCoulombS(void) { struct Lattice *L; label_t l; double u, e; LatticePresets_addCoulombS(L, l, u, e); if (VERIF_thrown) REACH("thrown"); REACH("exit"); }

/* ---- addCoulombP (Kanamori): monitor pk_monitor (-DPM_KANAMORI), ghost struct g_pk */
#define PK_PRE __CPROVER_requires(__CPROVER_is_fresh(L, sizeof(*L)) && SiteMap_wf_nosums(PL) && !VERIF_thrown && g_pm.calls == 0 && g_pm.hits == 0)
#define PK_KIND_OK (PK_LEVEL <= g_pk.gkind && g_pk.gkind <= PK_PAIRHOP)   /* the ghost member ranges over all six sums in ONE harness (91 s, 1.3 GB: no decomposition needed) */
#define PK_TWO_ORB (g_pk.gkind == PK_SAMESPIN || g_pk.gkind >= PK_UP)        /* sums over a != a' */
#define PK_TWO_SPIN (g_pk.gkind >= PK_U)                                    /* sums over s > s' */
//@maythrow LatticePresets_addCoulombP6 LatticePresets_addCoulombP5
//@free addCoulombP => LatticePresets_addCoulombP6
//@function Pomerol::LatticePresets::addCoulombP(Pomerol::Lattice*, std::__cxx11::basic_string<char, std::char_traits<char>, std::allocator<char> > const&, double, double, double, double) as LatticePresets_addCoulombP6
//@contract
PK_PRE
__CPROVER_requires(g_pk.l == Label && D_SAME(g_pk.U, U) && D_SAME(g_pk.Up, U_p) && D_SAME(g_pk.J, J) && D_SAME(g_pk.eps, Level))
/* the documented amplitudes (U'-J)/2 and -J */
__CPROVER_requires(D_SAME(g_pk.half, D_DIV(D_SUB(U_p, J), 2.0)) && D_SAME(g_pk.mJ, D_NEG(J)))
__CPROVER_requires(g_pk.known == K1 && (K1 ==> (g_pk.no == O1 && g_pk.ns == Z1)))
/* ghost member of the documented set: kind, orbitals ga (a), gb (a' != a), spins gz1 (s), gz2 (s' < s) inside the site's ranges */
__CPROVER_requires(PK_KIND_OK && g_pk.ga < g_pk.no && g_pk.gz1 < g_pk.ns && (PK_TWO_ORB ==> (g_pk.gb < g_pk.no && g_pk.gb != g_pk.ga)) && (PK_TWO_SPIN ==> g_pk.gz2 < g_pk.gz1))
__CPROVER_requires(g_pk.exp == ((g_pk.gkind == PK_LEVEL ? Level != 0.0 : g_pk.gkind == PK_SAMESPIN ? 1 : g_pk.gkind == PK_U ? U != 0.0 : g_pk.gkind == PK_UP ? U_p != 0.0 : J != 0.0) ? 1UL : 0UL))
__CPROVER_assigns(VERIF_thrown, g_pm, g_ft)
/* C20: unknown label; "Cannot add multiorbital interaction to a site with 1 orbital or 1 spin" */
__CPROVER_ensures(VERIF_thrown == (!K1 || O1 <= 1 || Z1 <= 1))
__CPROVER_ensures(VERIF_thrown ==> g_pm.calls == 0)
__CPROVER_ensures(!VERIF_thrown ==> g_pm.hits == g_pk.exp)
//@loop 1
__CPROVER_assigns(i, VERIF_thrown, g_pm, g_ft)
__CPROVER_loop_invariant(i <= Orbitals && !VERIF_thrown && (i <= g_pk.ga ? g_pm.hits == 0 : g_pm.hits == g_pk.exp))
__CPROVER_decreases(Orbitals - i)
//@loop 2
__CPROVER_assigns(z1, VERIF_thrown, g_pm, g_ft)
__CPROVER_loop_invariant(z1 <= Spins && !VERIF_thrown && (i == g_pk.ga ? (z1 <= g_pk.gz1 ? g_pm.hits == 0 : g_pm.hits == g_pk.exp) : g_pm.hits == __CPROVER_loop_entry(g_pm.hits)))
__CPROVER_decreases(Spins - z1)
//@loop 3
__CPROVER_assigns(j, g_pm, g_ft)
__CPROVER_loop_invariant(j <= Orbitals && !VERIF_thrown && ((i == g_pk.ga && z1 == g_pk.gz1 && g_pk.gkind == PK_SAMESPIN) ? (j <= g_pk.gb ? g_pm.hits == 0 : g_pm.hits == g_pk.exp) : g_pm.hits == __CPROVER_loop_entry(g_pm.hits)))
__CPROVER_decreases(Orbitals - j)
//@loop 4
__CPROVER_assigns(z2, VERIF_thrown, g_pm, g_ft)
__CPROVER_loop_invariant(z2 <= z1 && !VERIF_thrown && ((i == g_pk.ga && z1 == g_pk.gz1 && g_pk.gkind >= PK_U) ? (z2 <= g_pk.gz2 ? g_pm.hits == 0 : g_pm.hits == g_pk.exp) : g_pm.hits == __CPROVER_loop_entry(g_pm.hits)))
__CPROVER_decreases(z1 - z2)
//@loop 5
__CPROVER_assigns(j, VERIF_thrown, g_pm, g_ft)
__CPROVER_loop_invariant(j <= Orbitals && !VERIF_thrown && ((i == g_pk.ga && z1 == g_pk.gz1 && z2 == g_pk.gz2 && g_pk.gkind >= PK_UP) ? (j <= g_pk.gb ? g_pm.hits == 0 : g_pm.hits == g_pk.exp) : g_pm.hits == __CPROVER_loop_entry(g_pm.hits)))
__CPROVER_decreases(Orbitals - j)
//@end
//@harness h_addCoulombP enforce=LatticePresets_addCoulombP6 props=C04,C20 min_obl=3233 reach=8 objbits=8 defs=-DPM_KANAMORI timeout=600
void h_addCoulombP(void) { struct Lattice *L; label_t l; double u, up, j, e; LatticePresets_addCoulombP6(L, l, u, up, j, e); if (VERIF_thrown) REACH("thrown"); REACH("exit"); }
/* ---- addCoulombP(L, label, U, J, Level): "A shortcut ... with U' = U - 2J, i.e. U_p = U - 2.0*J": the same contract with U' := U - 2.0*J; the
 * callee is replaced by its contract proved above (its pre-condition pins every argument of the call: the ghost amplitudes are those of (U, U-2J, J, Level)) */
#define U_P5 D_SUB(U, D_MUL(2.0, J))
//@function Pomerol::LatticePresets::addCoulombP(Pomerol::Lattice*, std::__cxx11::basic_string<char, std::char_traits<char>, std::allocator<char> > const&, double, double, double) as LatticePresets_addCoulombP5
//@contract
PK_PRE
__CPROVER_requires(g_pk.l == Label && D_SAME(g_pk.U, U) && D_SAME(g_pk.Up, U_P5) && D_SAME(g_pk.J, J) && D_SAME(g_pk.eps, Level))
__CPROVER_requires(D_SAME(g_pk.half, D_DIV(D_SUB(g_pk.Up, J), 2.0)) && D_SAME(g_pk.mJ, D_NEG(J)))
__CPROVER_requires(g_pk.known == K1 && (K1 ==> (g_pk.no == O1 && g_pk.ns == Z1)))
__CPROVER_requires(PK_KIND_OK && g_pk.ga < g_pk.no && g_pk.gz1 < g_pk.ns && (PK_TWO_ORB ==> (g_pk.gb < g_pk.no && g_pk.gb != g_pk.ga)) && (PK_TWO_SPIN ==> g_pk.gz2 < g_pk.gz1))
__CPROVER_requires(g_pk.exp == ((g_pk.gkind == PK_LEVEL ? Level != 0.0 : g_pk.gkind == PK_SAMESPIN ? 1 : g_pk.gkind == PK_U ? U != 0.0 : g_pk.gkind == PK_UP ? g_pk.Up != 0.0 : J != 0.0) ? 1UL : 0UL))
__CPROVER_assigns(VERIF_thrown, g_pm, g_ft)
__CPROVER_ensures(VERIF_thrown == (!K1 || O1 <= 1 || Z1 <= 1))
__CPROVER_ensures(VERIF_thrown ==> g_pm.calls == 0)
__CPROVER_ensures(!VERIF_thrown ==> g_pm.hits == g_pk.exp)
//@end
//@harness h_addCoulombP5 enforce=LatticePresets_addCoulombP5 replace=LatticePresets_addCoulombP6 props=C04,C20 min_obl=191 reach=2 objbits=8 defs=-DPM_KANAMORI timeout=120
void h_addCoulombP5(void) { struct Lattice *L; label_t l; double u, j, e; LatticePresets_addCoulombP5(L, l, u, j, e); if (VERIF_thrown) REACH("thrown"); REACH("exit"); }

/* ---- addMagnetization: the documentation says mH 1/2 (n_up - n_down); KNOWN FINDING D14: the code stores +-mH */
//@function Pomerol::LatticePresets::addMagnetization(Pomerol::Lattice*, std::__cxx11::basic_string<char, std::char_traits<char>, std::allocator<char> > const&, double) as LatticePresets_addMagnetization
//@contract
ADD_PRE(PM_MAGNET)
__CPROVER_requires(g_pc.l1 == Label && D_SAME(g_pc.a1, Magnetization))
/* ghost member: kind 0: (mH/2) n_{i ga up};  kind 1: (-mH/2) n_{i ga down} */
__CPROVER_requires(K1 ==> (g_pc.ga < O1 && (g_pc.gkind == 0 || g_pc.gkind == 1)) && g_pc.exp == 1)
__CPROVER_assigns(VERIF_thrown, g_pm, g_ft)
/* "Valid only for 2 spins" */
__CPROVER_ensures(VERIF_thrown == (!K1 || Z1 != 2))
__CPROVER_ensures(VERIF_thrown ==> g_pm.calls == 0)
__CPROVER_ensures(!VERIF_thrown ==> g_pm.hits == g_pc.exp)
//@loop 1
__CPROVER_assigns(i, g_pm, g_ft)
__CPROVER_loop_invariant(i <= Orbitals && !VERIF_thrown && GH(i <= g_pc.ga))
__CPROVER_decreases(Orbitals - i)
//@end
#undef Label1
//@harness h_addMagnetization enforce=LatticePresets_addMagnetization props=C04,C20 min_obl=4061 reach=3 objbits=8 defs=-DVERIF_FP_IEEE timeout=120
void h_addMagnetization(void) { struct Lattice *L; label_t l; double m; LatticePresets_addMagnetization(L, l, m); if (VERIF_thrown) REACH("thrown"); REACH("exit"); }

/* ---- addSzSz / addSS: monitor px_monitor (-DPM_EXCH), ghost struct g_px */
#define SIZES_MISMATCH (O1 != O2 || Z1 != Z2)
#define PX_PRE __CPROVER_requires(__CPROVER_is_fresh(L, sizeof(*L)) && SiteMap_wf_nosums(PL) && !VERIF_thrown && g_pm.calls == 0 && g_pm.hits == 0)
/* the ghost constants: labels, J, the documented amplitudes -J/4, J/4, J/2, and what the validity check needs to know about the two sites */
#define PX_PINS __CPROVER_requires(g_px.l1 == Label1 && g_px.l2 == Label2 && D_SAME(g_px.J, ExchJ) && D_SAME(g_px.mq, AMP_MQUARTER(ExchJ)) && D_SAME(g_px.q, AMP_QUARTER(ExchJ)) && D_SAME(g_px.h, AMP_HALF(ExchJ))) \
   __CPROVER_requires(g_px.k1 == K1 && g_px.k2 == K2 && (K1 ==> (g_px.no1 == O1 && g_px.ns1 == Z1)) && (K2 ==> (g_px.no2 == O2 && g_px.ns2 == Z2)))
//@function Pomerol::LatticePresets::addSzSz(Pomerol::Lattice*, std::__cxx11::basic_string<char, std::char_traits<char>, std::allocator<char> > const&, std::__cxx11::basic_string<char, std::char_traits<char>, std::allocator<char> > const&, double) as LatticePresets_addSzSz
//@contract
PX_PRE
PX_PINS
/* ghost member: orbital ga, kind 0..3 = the four terms of the product (kind 4,5: the S+S-, S-S+ terms of addSS: not added here) */
__CPROVER_requires(g_px.ga < g_px.no1 && 0 <= g_px.gkind && g_px.gkind <= (g_px.ss ? 5 : 3) && g_px.exp == 1)
__CPROVER_assigns(VERIF_thrown, g_pm, g_ft)
/* unknown label, sites of different size, or not 2 spins */
__CPROVER_ensures(VERIF_thrown == (!K1 || !K2 || SIZES_MISMATCH || Z1 != 2))
__CPROVER_ensures(VERIF_thrown ==> g_pm.calls == 0)
__CPROVER_ensures(!VERIF_thrown ==> g_pm.hits == (g_px.gkind <= 3 ? g_px.exp : 0UL))
//@loop 1
__CPROVER_assigns(i, g_pm, g_ft)
__CPROVER_loop_invariant(i <= Orbitals && !VERIF_thrown && (g_px.gkind <= 3 ? (i <= g_px.ga ? g_pm.hits == 0 : g_pm.hits == g_px.exp) : g_pm.hits == 0))
__CPROVER_decreases(Orbitals - i)
//@end
//@harness h_addSzSz enforce=LatticePresets_addSzSz props=C04,C20 min_obl=2777 reach=3 objbits=8 defs=-DPM_EXCH timeout=300
void h_addSzSz(void) { struct Lattice *L; label_t l1, l2; double j; LatticePresets_addSzSz(L, l1, l2, j); if (VERIF_thrown) REACH("thrown"); REACH("exit"); }

/* ---- addSS (calls addSzSz, inlined with its loop contract) */
//@free addSzSz => LatticePresets_addSzSz
//@function Pomerol::LatticePresets::addSS(Pomerol::Lattice*, std::__cxx11::basic_string<char, std::char_traits<char>, std::allocator<char> > const&, std::__cxx11::basic_string<char, std::char_traits<char>, std::allocator<char> > const&, double) as LatticePresets_addSS
//@contract
PX_PRE
PX_PINS
__CPROVER_requires(g_px.ss && g_px.ga < g_px.no1 && 0 <= g_px.gkind && g_px.gkind <= 5 && g_px.exp == 1)
__CPROVER_assigns(VERIF_thrown, g_pm, g_ft)
__CPROVER_ensures(VERIF_thrown == (!K1 || !K2 || SIZES_MISMATCH || Z1 != 2))
__CPROVER_ensures(VERIF_thrown ==> g_pm.calls == 0)
__CPROVER_ensures(!VERIF_thrown ==> g_pm.hits == g_px.exp)
//@loop 1
__CPROVER_assigns(i, g_pm, g_ft)
__CPROVER_loop_invariant(i <= Orbitals && !VERIF_thrown && (g_px.gkind >= 4 ? (i <= g_px.ga ? g_pm.hits == 0 : g_pm.hits == g_px.exp) : g_pm.hits == g_px.exp))
__CPROVER_decreases(Orbitals - i)
//@end
//@harness h_addSS enforce=LatticePresets_addSS props=C04,C20 min_obl=2877 reach=3 objbits=8 defs=-DPM_EXCH timeout=400
void h_addSS(void) { struct Lattice *L; label_t l1, l2; double j; LatticePresets_addSS(L, l1, l2, j); if (VERIF_thrown) REACH("thrown"); REACH("exit"); }

/* ---- addHopping(L, i, j, t, a, a', s, s'): the checked single hopping term and its Hermitian conjugate */
//@free addHopping => LatticePresets_addHopping8
//@function Pomerol::LatticePresets::addHopping(Pomerol::Lattice*, std::__cxx11::basic_string<char, std::char_traits<char>, std::allocator<char> > const&, std::__cxx11::basic_string<char, std::char_traits<char>, std::allocator<char> > const&, double, unsigned short, unsigned short, unsigned short, unsigned short) as LatticePresets_addHopping8
//@contract
ADD_PRE(g_pc.mode)
__CPROVER_requires(g_pc.mode == PM_HOPPING8 ==> (g_pc.l1 == Label1 && g_pc.l2 == Label2 && D_SAME(g_pc.a1, t) && g_pc.ga == Orbital1 && g_pc.gb == Orbital2 && g_pc.gz1 == Spin1 && g_pc.gz2 == Spin2 &&
   (g_pc.gkind == 0 || g_pc.gkind == 1) && g_pc.exp == ((Label1 == Label2 && Orbital1 == Orbital2 && Spin1 == Spin2) ? 2UL : 1UL)))
__CPROVER_assigns(VERIF_thrown, g_pm, g_ft)
/* documented argument check: unknown label, or an orbital / spin outside the respective site's range */
__CPROVER_ensures(g_pc.mode == PM_HOPPING8 ==> (VERIF_thrown == (!K1 || !K2 || Orbital1 >= O1 || Orbital2 >= SM_orb(SITEPOS(Label2)) || Spin1 >= Z1 || Spin2 >= SM_spin(SITEPOS(Label2)))))
__CPROVER_ensures(g_pc.mode == PM_HOPPING8 ==> (VERIF_thrown ==> g_pm.calls == 0))
/* the hopping term and its Hermitian conjugate: exactly two terms, each documented one exactly once (soundness of both: monitor) */
__CPROVER_ensures((g_pc.mode == PM_HOPPING8 && !VERIF_thrown) ==> (g_pm.calls == 2 && g_pm.hits == g_pc.exp))
//@end
//@harness h_addHopping8 enforce=LatticePresets_addHopping8 props=C04,C20 min_obl=4372 reach=3 objbits=8 timeout=300
void h_addHopping8(void) { struct Lattice *L; label_t l1, l2; double t; unsigned short a, b, s1, s2; g_pc.mode = PM_HOPPING8; LatticePresets_addHopping8(L, l1, l2, t, a, b, s1, s2); if (VERIF_thrown) REACH("thrown"); REACH("exit"); }
/* ---- addHopping(L, i, j, t, a, a', s): "A shortcut to addHopping t c^+_{i a s} c_{j a' s}": a thin caller of the 8-argument overload, which is
 * REPLACED BY ITS CONTRACT (proved by h_addHopping8; its pre-condition pins every argument of the call to the ghost data) */
#define O2_ SM_orb(SITEPOS(Label2))
#define Z2_ SM_spin(SITEPOS(Label2))
//@maythrow LatticePresets_addHopping7 LatticePresets_addHopping6 LatticePresets_addHopping8d
//@function Pomerol::LatticePresets::addHopping(Pomerol::Lattice*, std::__cxx11::basic_string<char, std::char_traits<char>, std::allocator<char> > const&, std::__cxx11::basic_string<char, std::char_traits<char>, std::allocator<char> > const&, double, unsigned short, unsigned short, unsigned short) as LatticePresets_addHopping7
//@contract
ADD_PRE(PM_HOPPING8)
__CPROVER_requires(g_pc.l1 == Label1 && g_pc.l2 == Label2 && D_SAME(g_pc.a1, t) && g_pc.ga == Orbital1 && g_pc.gb == Orbital2 && g_pc.gz1 == Spin && g_pc.gz2 == Spin &&
   (g_pc.gkind == 0 || g_pc.gkind == 1) && g_pc.exp == ((Label1 == Label2 && Orbital1 == Orbital2) ? 2UL : 1UL))
__CPROVER_assigns(VERIF_thrown, g_pm, g_ft)
__CPROVER_ensures(VERIF_thrown == (!K1 || !K2 || Orbital1 >= O1 || Orbital2 >= O2_ || Spin >= Z1 || Spin >= Z2_))
__CPROVER_ensures(VERIF_thrown ==> g_pm.calls == 0)
__CPROVER_ensures(!VERIF_thrown ==> (g_pm.calls == 2 && g_pm.hits == g_pc.exp))
//@end
//@harness h_addHopping7 enforce=LatticePresets_addHopping7 replace=LatticePresets_addHopping8 props=C04,C20 min_obl=187 reach=2 objbits=8 timeout=120
void h_addHopping7(void) { struct Lattice *L; label_t l1, l2; double t; unsigned short a, b, s; LatticePresets_addHopping7(L, l1, l2, t, a, b, s); if (VERIF_thrown) REACH("thrown"); REACH("exit"); }

/* ---- addHopping(L, i, j, t, a, a'): "SUM_s t c^+_{i a s} c_{j a' s}" (+ h.c., as added by the 8-argument overload): a loop of calls
 * addHopping(L,i,j,t,a,a',z,z).  The callee is extracted a second time (addHopping8d) with a contract RELATIVE to the monitor state
 * (two more terms; the ghost member is among them iff the spin of this call is the ghost spin), proved by h_addHopping8d with the
 * monitor ph_monitor, and replaced by that contract in the loop. */
//@function Pomerol::LatticePresets::addHopping(Pomerol::Lattice*, std::__cxx11::basic_string<char, std::char_traits<char>, std::allocator<char> > const&, std::__cxx11::basic_string<char, std::char_traits<char>, std::allocator<char> > const&, double, unsigned short, unsigned short, unsigned short, unsigned short) as LatticePresets_addHopping8d
//@contract
__CPROVER_requires(__CPROVER_is_fresh(L, sizeof(*L)) && SiteMap_wf_nosums(PL) && !VERIF_thrown && (g_pc.mode == PM_HOPDIAG || g_pc.mode == PM_HOPDIAG2) && g_pc.n == PL->n)
__CPROVER_requires(g_pc.l1 == Label1 && g_pc.l2 == Label2 && D_SAME(g_pc.a1, t) && Spin1 == Spin2 && (g_pc.gkind == 0 || g_pc.gkind == 1))
__CPROVER_requires(g_pc.mode == PM_HOPDIAG ? (g_pc.ga == Orbital1 && g_pc.gb == Orbital2) : (Orbital1 == Orbital2 && g_pc.ga == g_pc.gb))
__CPROVER_assigns(VERIF_thrown, g_pm, g_ft)
__CPROVER_ensures(VERIF_thrown == (!K1 || !K2 || Orbital1 >= O1 || Orbital2 >= O2_ || Spin1 >= Z1 || Spin2 >= Z2_))
__CPROVER_ensures(VERIF_thrown ==> (g_pm.calls == __CPROVER_old(g_pm.calls) && g_pm.hits == __CPROVER_old(g_pm.hits)))
/* exactly two more terms (both of the documented form: monitor); the ghost member is among them iff the orbitals and the spin of this call are the ghost's (twice if it is its own conjugate) */
__CPROVER_ensures(!VERIF_thrown ==> (g_pm.calls == __CPROVER_old(g_pm.calls) + 2 &&
     g_pm.hits == __CPROVER_old(g_pm.hits) + ((Spin1 == g_pc.gz1 && Orbital1 == g_pc.ga && Orbital2 == g_pc.gb) ? ((Label1 == Label2 && Orbital1 == Orbital2) ? 2UL : 1UL) : 0UL)))
//@end
//@harness h_addHopping8d enforce=LatticePresets_addHopping8d props=C04,C20 min_obl=589 reach=3 objbits=8 defs=-DPM_HOPDIAG_MON timeout=120
void h_addHopping8d(void) { struct Lattice *L; label_t l1, l2; double t; unsigned short a, b, s1, s2; LatticePresets_addHopping8d(L, l1, l2, t, a, b, s1, s2); if (VERIF_thrown) REACH("thrown"); REACH("exit"); }
//@free addHopping => LatticePresets_addHopping8d
//@function Pomerol::LatticePresets::addHopping(Pomerol::Lattice*, std::__cxx11::basic_string<char, std::char_traits<char>, std::allocator<char> > const&, std::__cxx11::basic_string<char, std::char_traits<char>, std::allocator<char> > const&, double, unsigned short, unsigned short) as LatticePresets_addHopping6
//@contract
ADD_PRE(PM_HOPDIAG)
__CPROVER_requires(g_pc.l1 == Label1 && g_pc.l2 == Label2 && D_SAME(g_pc.a1, t) && g_pc.ga == Orbital1 && g_pc.gb == Orbital2 && (g_pc.gkind == 0 || g_pc.gkind == 1))
/* ghost member: kind 0: t c^+_{i a gz1} c_{j a' gz1};  kind 1: its conjugate (the same term if i == j and a == a') */
__CPROVER_requires(K1 ==> g_pc.gz1 < Z1)
__CPROVER_requires(g_pc.exp == ((Label1 == Label2 && Orbital1 == Orbital2) ? 2UL : 1UL))
__CPROVER_assigns(VERIF_thrown, g_pm, g_ft)
/* unknown label, orbital outside the respective site's range, or different numbers of spins */
__CPROVER_ensures(VERIF_thrown == (!K1 || !K2 || Orbital1 >= O1 || Orbital2 >= O2_ || Z1 != Z2_))
__CPROVER_ensures(VERIF_thrown ==> g_pm.calls == 0)
/* two terms per spin, each documented one exactly once */
__CPROVER_ensures(!VERIF_thrown ==> (g_pm.calls == 2UL * Z1 && g_pm.hits == g_pc.exp))
//@loop 1
__CPROVER_assigns(z, VERIF_thrown, g_pm, g_ft)
__CPROVER_loop_invariant(0 <= z && z <= Spins && !VERIF_thrown && g_pm.calls == 2UL * (unsigned long)z && GH(z <= g_pc.gz1))
__CPROVER_decreases(Spins - z)
//@end
//@harness h_addHopping6 enforce=LatticePresets_addHopping6 replace=LatticePresets_addHopping8d props=C04,C20 min_obl=387 reach=2 objbits=8 timeout=120
void h_addHopping6(void) { struct Lattice *L; label_t l1, l2; double t; unsigned short a, b; LatticePresets_addHopping6(L, l1, l2, t, a, b); if (VERIF_thrown) REACH("thrown"); REACH("exit"); }
/* ---- addHopping(L, i, j, t): SUM_{s a} t c^+_{ias} c_{jas} + h.c., as a caller of the relative contract of the 8-argument overload, mode PM_HOPDIAG2
 * (round 1 inlined the callee under the generic monitor: 40 GB, undecided; same contract here) */
//@function Pomerol::LatticePresets::addHopping(Pomerol::Lattice*, std::__cxx11::basic_string<char, std::char_traits<char>, std::allocator<char> > const&, std::__cxx11::basic_string<char, std::char_traits<char>, std::allocator<char> > const&, double) as LatticePresets_addHopping4
//@contract
ADD_PRE(PM_HOPDIAG2)
__CPROVER_requires(g_pc.l1 == Label1 && g_pc.l2 == Label2 && D_SAME(g_pc.a1, t) && g_pc.ga == g_pc.gb && (g_pc.gkind == 0 || g_pc.gkind == 1))
/* ghost member: kind 0: t c^+_{i ga gz1} c_{j ga gz1};  kind 1: its conjugate t c^+_{j ga gz1} c_{i ga gz1} (the same term twice if i == j) */
__CPROVER_requires((K1 && K2) ==> (g_pc.ga < O1 && g_pc.gz1 < Z1))
__CPROVER_requires(g_pc.exp == (Label1 == Label2 ? 2UL : 1UL))
__CPROVER_assigns(VERIF_thrown, g_pm, g_ft)
__CPROVER_ensures(VERIF_thrown == (!K1 || !K2 || SIZES_MISMATCH))
__CPROVER_ensures(VERIF_thrown ==> g_pm.calls == 0)
/* each documented term exactly once (the number of terms, 2 * spins * orbitals, is not stated: a product of two symbolic numbers) */
__CPROVER_ensures(!VERIF_thrown ==> g_pm.hits == g_pc.exp)
//@loop 1
__CPROVER_assigns(z, VERIF_thrown, g_pm, g_ft)
__CPROVER_loop_invariant(z <= Spins && !VERIF_thrown && GH(z <= g_pc.gz1))
__CPROVER_decreases(Spins - z)
//@loop 2
__CPROVER_assigns(i, VERIF_thrown, g_pm, g_ft)
__CPROVER_loop_invariant(i <= Orbitals && !VERIF_thrown && (z == g_pc.gz1 ? GH(i <= g_pc.ga) : g_pm.hits == __CPROVER_loop_entry(g_pm.hits)))
__CPROVER_decreases(Orbitals - i)
//@end
//@harness h_addHopping4 enforce=LatticePresets_addHopping4 replace=LatticePresets_addHopping8d props=C04,C20 min_obl=459 reach=2 objbits=8 timeout=120
void h_addHopping4(void) { struct Lattice *L; label_t l1, l2; double t; LatticePresets_addHopping4(L, l1, l2, t); if (VERIF_thrown) REACH("thrown"); REACH("exit"); }
//@free addHopping => LatticePresets_addHopping8

/* MUTATION RECORD (tools/try_mutant.py, src/pomerol/LatticePresets.cpp; all killed):
 *  F1 Spinflip orbitals {a,b,a,b}                   Presets_Spinflip.postcondition.2
 *  F2 Spinflip guard `||` -> `&&`                   Presets_Spinflip.postcondition.1
 *  F3 PairHopping spins {s,t,t,s}                   Presets_PairHopping.postcondition.2
 *  F4 NupNdown(label,U,a,b) spins (down,up)         Presets_NupNdown4.postcondition.1
 *  F5 Hopping operator sequence {c, c+}             Presets_Hopping7.postcondition.1
 *  F6 SminusSplus does not assign the spins         Presets_SminusSplus.postcondition.1
 *  F7 NupNdown degenerate test ignores the orbital  Presets_NupNdown7.postcondition.1
 *  F8 Level stores -Value                           Presets_Level.postcondition.1
 *  A1 addLevel spin loop starts at 1                LatticePresets_addLevel.loop_invariant_base.3/.6, loop_invariant_step.6
 *  A2 addLevel Level(Label, eps, z, i)              pm_monitor.assertion.1 (C20 validity), LatticePresets_addLevel.loop_invariant_step.2/.4
 * EXPECTED FAILURE on the unchanged tree (known finding D14, the contract is written from the documentation
 *   "mH 1/2 (n_up - n_down)" while the code stores +-mH): harness h_addMagnetization, obligations
 *   pm_monitor.assertion.2 ("C04: every term handed to the storage belongs to the documented sum, with the documented amplitude")
 *   and its consequence LatticePresets_addMagnetization.loop_invariant_step.2 (the ghost term (mH/2) n is never handed over).
 * Round 1 left h_addSzSz, h_addSS, h_addHopping4 undecided (generic monitor, 8 GB / 40 GB); round 2 closes them in the quick tier with the same contracts:
 *   addSzSz / addSS under the scalar-only monitor px_monitor (-DPM_EXCH), addHopping/4 as a caller of the relative contract of addHopping8d.
 * Round 2 (tools/try_mutant.py-style runs in private output directories; all killed):
 *  K1 addCoulombP same-spin loop `j<Orbitals` -> `j<Spins`     pk_monitor.assertion.1 (C20 validity, Spins > Orbitals), LatticePresets_addCoulombP6.loop_invariant_step.1/.18/.36 (completeness, Orbitals >= 3)
 *  K2 addCoulombP (U_p-J)/2. -> (U_p-J)                        pk_monitor.assertion.2, loop_invariant_step.2/.10/.20/.28
 *  K3 addCoulombP Spinflip(-J) -> Spinflip(J)                  pk_monitor.assertion.2, loop_invariant_step.12/.14/.30/.32
 *  K4 addCoulombP `Orbitals<=1 || Spins<=1` -> `&&`            LatticePresets_addCoulombP6.postcondition.1
 *  K5 addCoulombP(U,J,Level) U-2.0*J -> U-J                    LatticePresets_addCoulombP6.precondition.2/.3/.6 (call site in addCoulombP5)
 *  K6 addCoulombP(U,J,Level) passes (..., Level, J)            LatticePresets_addCoulombP6.precondition.2/.3/.6
 *  H1 addHopping/7 swaps Orbital1, Orbital2                    LatticePresets_addHopping7.postcondition.1, LatticePresets_addHopping8.precondition.2
 *  H2 addHopping/6 spin loop starts at 1                       LatticePresets_addHopping6.postcondition.3, loop_invariant_base.2
 *  H3 addHopping/6 spin sizes compared with Label1 (D10 shape) LatticePresets_addHopping6.postcondition.1/.2
 *  H4 addHopping/8 conjugate keeps the orbital order           LatticePresets_addHopping8d.postcondition.3, ph_monitor.assertion.2/.3
 *  H5 addHopping/8 `Spin1 >=` -> `Spin1 >`                     LatticePresets_addHopping8d.postcondition.1, ph_monitor.assertion.2
 *  H6 addHopping/6 passes (Orbital1, Orbital1)                 LatticePresets_addHopping6.postcondition.1, LatticePresets_addHopping8d.precondition.2, loop_invariant_step.2
 *  X1 addSzSz first term +J/4 instead of -J/4                    px_monitor.assertion.2, LatticePresets_addSzSz.loop_invariant_step.2
 *  X2 addSzSz `Label1 != Label2` -> `==`                          px_monitor.assertion.2, LatticePresets_addSzSz.loop_invariant_step.2
 *  X3 addSzSz `Spins!=2` -> `Spins>2`                             LatticePresets_addSzSz.postcondition.1, px_monitor.assertion.1
 *  X4 addSS S+S- amplitude J/4                                    px_monitor.assertion.2, LatticePresets_addSS.loop_invariant_step.2
 *  X5 addSS S+S-/S-S+ loop starts at 1                            LatticePresets_addSS.postcondition.3, loop_invariant_base.2
 *  X6 addHopping/4 orbital loop bounded by Spins                  LatticePresets_addHopping4.postcondition.1/.2, loop_invariant_step.6
 * Wave 2 (a change that calls ANOTHER overload of a factory reaches the monitors instead of breaking extraction: stubs PresetsC_Hopping5 /
 *   _NupNdown4 / _NupNdown5 / _NupNdown5_dflt assume exactly the post-conditions proved by h_Presets_Hopping5 / _NupNdown4 / _NupNdown5):
 *  O1 addCoulombS NupNdown(Label, U, i) (defaulted spins up, down; differs only for >= 3 spins)   LatticePresets_addCoulombS.loop_invariant_step.4/.10
 *       (completeness: the ghost term U n_{ias} n_{ias'} with s = 2 is never handed over, n_up n_down is handed over more than once; every single
 *        term IS a member of the documented sum, so the soundness assertion of pm_monitor holds for this mutant)
 *  O2 addHopping/8 Hopping(Label1, Label2, t, Orbital1, Spin1)                                   pm_monitor.assertion.1/.2, LatticePresets_addHopping8.postcondition.3
 *  O3 addSzSz NupNdown(Label1, -ExchJ/4., i, up, down) (5-argument overload: both operators on site 1)   px_monitor.assertion.2, LatticePresets_addSzSz.loop_invariant_step.2
 *  (NupNdown(Label, Value, a, b) with FOUR arguments does not compile: ambiguous between the 4- and the defaulted 5-argument overload)
 *  X7 addHopping/4 spin sizes compared with Label1 (D10 shape)    LatticePresets_addHopping4.postcondition.1/.2
 * REMARK (not a violation of the documented operator): addCoulombP stores the (U'-J)/2 terms also when U' == J (amplitude zero): L->Terms->addTerm
 *   bypasses the zero filter of Lattice::addTerm and the preset has no `if (std::abs(...))` guard for this sum, unlike for U, U', J and Level.
 * Monitor variants: the generic pm_monitor (modes PM_COULOMBS, PM_LEVEL, PM_MAGNET, PM_HOPPING8; its cases PM_SZSZ, PM_SS, PM_HOPPING are no longer used by a
 *   harness) and, selected by a define of the harness, pk_monitor (-DPM_KANAMORI), px_monitor (-DPM_EXCH), ph_monitor (-DPM_HOPDIAG_MON): same three checks
 *   (validity, membership in the documented set, ghost count), written over scalars pinned in `requires`.
 * IndexHamiltonian::prepare is in specs/indexham.c. */
