/* C07, clause "every single creation/annihilation operator maps all states of a block into at most one block ... for every
 * user-supplied integral of motion the analysis accepts".
 *
 * The contracts that ARE proved give:   checkSymmetry accepts Q  <=>  [H,Q]=0 and [n_i,Q]=0 for all i   (specs/symm.c)
 *                                        blocks = classes of equal quantum numbers                        (specs/states.c)
 *                                        FieldOperator::mapsTo REQUIRES the single-target property         (specs/states.c)
 * This harness asks whether the first two facts IMPLY the third, for an arbitrary accepted diagonal integral Q on M <= 3 modes
 * (a diagonal operator is a function of the occupation numbers: a table of 2^M symbolic values; [n_i,Q]=0 holds for every such Q;
 * H is taken as the zero operator restricted to... -- no: H plays no role for the single-target property of c^+_i, which only looks at
 * the partition).  It is a BOUNDED counter-example search at the level of the contracts (no extracted code): labelled bounded, never
 * counted as proved.  On the unchanged tree it FAILS -- known finding D9 (e.g. Q = n_0 n_1): the obligation is listed in
 * known_findings.json and replayed natively by replay/d9.cpp (one-site Hubbard atom, integral n_up n_down: G_00 = 0 instead of
 * (-0.0406,-0.5772)). */
#include "../stubs/common.h"
#define M 3
#define NS (1 << M)
//@harness h_D9_single_target enforce=none loopcontracts=0 unwind=9 props=C07 bounded=diagonal_integral_on_3_modes reach=0 min_obl=1 timeout=120 replay=d9:atom
void h_D9_single_target(void)
{
  int Q[NS];                               /* quantum number of each Fock state under an arbitrary diagonal integral (small integers) */
  for (int s = 0; s < NS; s++) { Q[s] = nondet_int(); __CPROVER_assume(-4 <= Q[s] && Q[s] <= 4); }
  int i = nondet_int(); __CPROVER_assume(0 <= i && i < M);
  int s = nondet_int(), t = nondet_int();
  __CPROVER_assume(0 <= s && s < NS && 0 <= t && t < NS);
  __CPROVER_assume(Q[s] == Q[t]);                                  /* s and t lie in the same block */
  __CPROVER_assume(!(s & (1 << i)) && !(t & (1 << i)));            /* c^+_i annihilates neither */
  /* single-target property that FieldOperator::mapsTo / *::prepare rely on: the images lie in one block */
  __CPROVER_assert(Q[s | (1 << i)] == Q[t | (1 << i)], "C07: an accepted diagonal integral of motion gives c^+_i a single target block (D9)");
}
