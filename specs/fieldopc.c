/* FieldOperatorContainer::computeAll -- "the stored annihilation operator is the Hermitian conjugate of the stored creation
 * operator ... for those produced by the operator container" (C10).
 *
 * Code: for every creation operator c^+_i: compute it; then for every relation (R -> L) of its block map (iterated through
 * the bimap's right view: first = right index R, second = left index L) the part of c_i whose RIGHT index is L receives
 *     elementsRowMajor = adjoint(colMajor of the part of c^+_i with right index R)
 *     elementsColMajor = adjoint(rowMajor of the same part)          Status = Computed (part and operator).
 * Proved (ghost creation operator = arbitrary position of mapCreationOperators; ghost relation = arbitrary position of its
 * bimap's right view): that annihilation part receives exactly these two matrices, each exactly once, both Status fields
 * become Computed, the creation operator is computed; all iterator uses are valid.
 *
 * Model: ghost-element maps (one real creation operator / annihilation operator / pair of parts; every other element is a
 * scratch object that is re-havocked at each access).  The adjoint of a real compressed column-major matrix, stored
 * row-major, consists of the SAME three arrays (outer, inner, values) -- ASSUMED contract of Eigen's adjoint()+operator=;
 * the model lets the destination share the arrays of the source (nothing writes to them afterwards in this function).
 *
 * CALLEE PRE-CONDITION NOT CHECKED HERE: getPartFromRightIndex(in) dereferences mapPartsFromRight.find(in) unchecked; that
 * the creation operator has a part for each right key of its own bimap and that the annihilation operator has a part whose
 * right index is the creation part's left index follows from the contracts of the two prepare() functions plus injectivity
 * of the block map (C07) -- DESIGN 3.10; the stub below returns a part for every argument.
 */
#include "../stubs/common.h"
#include "../stubs/sparse.h"
#include "../stubs/bimap.h"
//@include types_common.inc
//@include types_bimap.inc
//@type std::map<(Pomerol::)?ParticleIndex, (Pomerol::)?CreationOperator ?\*.*>|std::map<unsigned int, Pomerol::CreationOperator ?\*.*> => OpMapCX ptr
//@type std::map<(Pomerol::)?ParticleIndex, (Pomerol::)?AnnihilationOperator ?\*.*>|std::map<unsigned int, Pomerol::AnnihilationOperator ?\*.*> => OpMapC ptr
//@type std::map<(Pomerol::)?ParticleIndex, (Pomerol::)?CreationOperator ?\*.*>::iterator|std::_Rb_tree_iterator<std::pair<const unsigned int, Pomerol::CreationOperator ?\*> ?>(::_Self)? => OpMapCXIt val
//@type (const )?Eigen::Transpose<.*>|(const )?Eigen::SparseMatrixBase<.*>::AdjointReturnType|(const )?Eigen::CwiseUnaryOp<.*> => AdjView val
//@type (boost::iterators::(detail::)?iterator_facade(_base)?<)?(boost::bimaps::detail::)?map_view_iterator<boost::bimaps::relation::member_at::right, .* => BiRightIt val
//@record Pomerol::CreationOperator => struct FieldOperator ptr
//@record Pomerol::AnnihilationOperator => struct FieldOperator ptr
//@record Pomerol::CreationOperatorPart => struct FieldOperatorPart ptr
//@record Pomerol::AnnihilationOperatorPart => struct FieldOperatorPart ptr
//@tu src/pomerol/FieldOperatorContainer.cpp
//@enum ComputableObject::
//@struct Pomerol::FieldOperatorPart only=Status,elementsRowMajor,elementsColMajor
//@struct Pomerol::FieldOperator only=Status,LeftRightBlocks

/* ---- ghosts */
struct FieldOperator *g_cx, *g_c;           /* the ghost creation operator c^+_i and the annihilation operator c_i of the same index */
struct FieldOperatorPart *g_cx_part;        /* part of g_cx whose right index is the ghost relation's right key R */
struct FieldOperatorPart *g_c_part;         /* part of g_c whose right index is the ghost relation's left key L */
struct FieldOperator *g_other_cx, *g_other_c;       /* scratch operators: every other map element */
struct FieldOperatorPart *g_other_part;             /* scratch part: every other part */
BiPair *g_other_e; long g_other_n;                  /* relations of a scratch operator's bimap */
unsigned long g_hits_rm, g_hits_cm;         /* assignments to g_c_part's two matrices */
#define G_ENTRY (g_cx->LeftRightBlocks.right.gpos)                       /* ghost position in the right view, or -1 */
#define G_R (g_cx->LeftRightBlocks.right.e[G_ENTRY].first.number)        /* right index of the creation part */
#define G_L (g_cx->LeftRightBlocks.right.e[G_ENTRY].second.number)       /* its left index */

/* ---- std::map<ParticleIndex, CreationOperator*> / <.., AnnihilationOperator*> */
typedef struct OpPair { unsigned int first; struct FieldOperator *second; } OpPair;
typedef struct OpMapCX { long n; long gpos; unsigned int gkey; } OpMapCX;
typedef struct OpMapC { long n; unsigned int gkey; struct FieldOperator *slot; } OpMapC;
typedef struct OpMapCXIt { OpMapCX *m; long pos; OpPair cur; } OpMapCXIt;
#define OP_MAX 1000000L
#define OpMapCX_begin(m_) ((OpMapCXIt){ (m_), 0L, { 0U, (struct FieldOperator *)0 } })
#define OpMapCX_end(m_)   ((OpMapCXIt){ (m_), (m_)->n, { 0U, (struct FieldOperator *)0 } })
#define op_ne_OpMapCXIt_OpMapCXIt(a, b) ((a).pos != (b).pos)
#define OpMapCXIt_inc(it) ((it)->pos++, (it))
static inline void other_operator_havoc(struct FieldOperator *o)
{
  /* OPERATOR INVARIANT instantiated at another element (ASSUMED = quantified pre-condition): prepared, bimap well formed */
  o->Status = nondet_bool() ? Prepared : Computed;
  o->LeftRightBlocks.right.n = g_other_n; o->LeftRightBlocks.right.e = g_other_e;
  o->LeftRightBlocks.right.kmax = BI_KMAX_LIMIT; o->LeftRightBlocks.right.gpos = -1; o->LeftRightBlocks.right.last_pos = -1;
  o->LeftRightBlocks.left = o->LeftRightBlocks.right;
}
static inline OpPair *opmap_arrow(OpMapCXIt *it)
{
  __CPROVER_assert(0 <= it->pos && it->pos < it->m->n, "std::map iterator dereferenced only before end()");
  if (it->pos == it->m->gpos) { it->cur.first = it->m->gkey; it->cur.second = g_cx; }
  else {
    it->cur.first = nondet_uint();
    /* ASSUMED (std::map): keys strictly increasing -- point-wise against the ghost position */
    if (it->pos < it->m->gpos) __CPROVER_assume(it->cur.first < it->m->gkey);
    if (it->pos > it->m->gpos) __CPROVER_assume(it->cur.first > it->m->gkey);
    other_operator_havoc(g_other_cx);
    it->cur.second = g_other_cx;
  }
  return &it->cur;
}
unsigned int nondet_uint(void);
#define OpMapCXIt_arrow(it) opmap_arrow(it)
/* mapAnnihilationOperators[key]: ASSUMED type invariant of the container (prepareAll inserts into both maps together):
 * the key is present, so operator[] does not insert a null pointer */
static inline struct FieldOperator **OpMapC_at(OpMapC *m, const unsigned int *key)
{
  if (*key == m->gkey) m->slot = g_c;
  else { other_operator_havoc(g_other_c); m->slot = g_other_c; }
  return &m->slot;
}
//@struct Pomerol::FieldOperatorContainer only=mapCreationOperators,mapAnnihilationOperators

/* ---- FieldOperator: callee contracts */
/* compute(): "throws unless prepared; afterwards every part is computed and Status == Computed" */
static inline void FieldOperator_compute(struct FieldOperator *op)
{
  if (op->Status < Prepared) { VERIF_THROW("exStatusMismatch"); return; }
  op->Status = Computed;
  if (op == g_cx) REACH("compute-ghost-cdag");
}
/* getPartFromRightIndex(in): the part whose right index is `in` (existence: see the header comment) */
static inline struct FieldOperatorPart *FieldOperator_getPartFromRightIndex(struct FieldOperator *op, BlockNumber in)
{
  if (op->Status < Prepared) { VERIF_THROW("exStatusMismatch"); }
  if (G_ENTRY >= 0 && op == g_cx && in.number == G_R) return g_cx_part;
  if (G_ENTRY >= 0 && op == g_c && in.number == G_L) return g_c_part;
  return g_other_part;
}
#define BiRightIt_ctor1(x) (x)     /* iterator -> const_iterator */
//@tu src/pomerol/FieldOperator.cpp
//@maythrow FieldOperator_getBlockMapping FieldOperator_compute FieldOperator_getPartFromRightIndex
/* twins for the other spelling of an increment (`++it` for `it++` and vice versa): same effect.  X_inc yields the iterator after the step
 * (exact); X_postinc made from X_inc is void, so a use of its value does not compile (UNDECIDED) instead of being modelled wrongly */
#define OpMapCXIt_postinc(it_) ((void)OpMapCXIt_inc(it_))
//@function Pomerol::FieldOperator::getBlockMapping() const as FieldOperator_getBlockMapping
//@end
//@tu src/pomerol/FieldOperatorPart.cpp
//@function Pomerol::FieldOperatorPart::getRowMajorValue() const as FieldOperatorPart_getRowMajorValue
//@end
//@function Pomerol::FieldOperatorPart::getColMajorValue() const as FieldOperatorPart_getColMajorValue
//@end
//@tu src/pomerol/FieldOperatorContainer.cpp

/* ---- adjoint() and the assignment of it: monitors */
typedef struct AdjView { SparseM *src; } AdjView;
#define SparseCM_adjoint(m) (*(AdjView[1]){ { (m) } })
#define SparseRM_adjoint(m) (*(AdjView[1]){ { (m) } })
/* transpose(): the view with the storage order swapped and NO conjugation.  MelemType of the extracted (default) build is
 * real (types_common.inc: MelemType => double), where Eigen's adjoint() is literally transpose() (AdjointReturnType =
 * Transpose<const Derived> for non-complex scalars, Eigen/src/SparseCore/SparseMatrixBase.h), so both are the same view here.
 * A complex build would need a conjugation flag in AdjView; that build is not the one under contract. */
#define SparseCM_transpose(m) (*(AdjView[1]){ { (m) } })
#define SparseRM_transpose(m) (*(AdjView[1]){ { (m) } })
static inline void sparse_take_adjoint(SparseM *dst, SparseM *src)
{ /* ASSUMED (Eigen, real scalars): adjoint of compressed {Col,Row}Major stored {Row,Col}Major = the same arrays */
  dst->outerSize = src->outerSize; dst->innerSize = src->innerSize; dst->nnz = src->nnz;
  dst->outer = src->outer; dst->inner = src->inner; dst->values = src->values;
}
static inline void SparseRM_assign(SparseRM *dst, AdjView *v)
{
  if (dst == &g_c_part->elementsRowMajor) {
    __CPROVER_assert(v->src == &g_cx_part->elementsColMajor, "C10: c part (right index L) row-major := adjoint(col-major of the c^+ part with right index R)");
    g_hits_rm++; REACH("assign-rowmajor-ghost");
  }
  sparse_take_adjoint(dst, v->src);
}
static inline void SparseCM_assign(SparseCM *dst, AdjView *v)
{
  if (dst == &g_c_part->elementsColMajor) {
    __CPROVER_assert(v->src == &g_cx_part->elementsRowMajor, "C10: c part (right index L) col-major := adjoint(row-major of the c^+ part with right index R)");
    g_hits_cm++; REACH("assign-colmajor-ghost");
  }
  sparse_take_adjoint(dst, v->src);
}
#define SAME_ARRAYS(a, b) ((a).outerSize == (b).outerSize && (a).innerSize == (b).innerSize && (a).nnz == (b).nnz && \
                           (a).outer == (b).outer && (a).inner == (b).inner && (a).values == (b).values)
#define GHOST_DONE (g_hits_rm == 1 && g_hits_cm == 1 && g_c_part->Status == Computed && g_c->Status == Computed && \
                    SAME_ARRAYS(g_c_part->elementsRowMajor, g_cx_part->elementsColMajor) && \
                    SAME_ARRAYS(g_c_part->elementsColMajor, g_cx_part->elementsRowMajor))
#define SCRATCH_TARGETS __CPROVER_object_whole(g_other_cx), __CPROVER_object_whole(g_other_c), __CPROVER_object_whole(g_other_part)

//@function Pomerol::FieldOperatorContainer::computeAll() as FieldOperatorContainer_computeAll
//@contract
__CPROVER_requires(__CPROVER_is_fresh(self, sizeof(*self)) && !VERIF_thrown && g_hits_rm == 0 && g_hits_cm == 0)
/* the maps: same key set (container invariant); ghost position / key */
__CPROVER_requires(0 <= self->mapCreationOperators.n && self->mapCreationOperators.n <= OP_MAX && self->mapAnnihilationOperators.n == self->mapCreationOperators.n)
__CPROVER_requires(0 <= self->mapCreationOperators.gpos && self->mapCreationOperators.gpos < self->mapCreationOperators.n && self->mapAnnihilationOperators.gkey == self->mapCreationOperators.gkey)
/* the ghost operators: prepared (prepareAll), the creation operator's bimap well formed with an arbitrary ghost relation (or none) */
__CPROVER_requires(__CPROVER_is_fresh(g_cx, sizeof(struct FieldOperator)) && __CPROVER_is_fresh(g_c, sizeof(struct FieldOperator)))
__CPROVER_requires(g_cx->Status >= Prepared && g_cx->Status <= Computed && g_c->Status >= Prepared && g_c->Status <= Computed)
__CPROVER_requires(BlocksBimap_wf(&g_cx->LeftRightBlocks))
__CPROVER_requires(__CPROVER_is_fresh(g_cx_part, sizeof(struct FieldOperatorPart)) && __CPROVER_is_fresh(g_c_part, sizeof(struct FieldOperatorPart)))
/* scratch objects */
__CPROVER_requires(__CPROVER_is_fresh(g_other_cx, sizeof(struct FieldOperator)) && __CPROVER_is_fresh(g_other_c, sizeof(struct FieldOperator)) &&
                   __CPROVER_is_fresh(g_other_part, sizeof(struct FieldOperatorPart)))
__CPROVER_requires(0 <= g_other_n && g_other_n <= BI_MAX && __CPROVER_is_fresh(g_other_e, g_other_n * sizeof(BiPair)))
__CPROVER_assigns(g_cx->Status, g_c->Status, __CPROVER_object_whole(g_c_part), g_hits_rm, g_hits_cm, VERIF_thrown,
                  self->mapAnnihilationOperators.slot, SCRATCH_TARGETS)
__CPROVER_ensures(!VERIF_thrown)
__CPROVER_ensures(g_cx->Status == Computed)
/* C10: the ghost relation's annihilation part received the two adjoints, each exactly once */
__CPROVER_ensures(G_ENTRY >= 0 ==> GHOST_DONE)
//@loop 1
__CPROVER_assigns(cdag_it, g_cx->Status, g_c->Status, __CPROVER_object_whole(g_c_part), g_hits_rm, g_hits_cm, VERIF_thrown,
                  self->mapAnnihilationOperators.slot, SCRATCH_TARGETS)
__CPROVER_loop_invariant(cdag_it.m == &self->mapCreationOperators && 0 <= cdag_it.pos && cdag_it.pos <= self->mapCreationOperators.n)
__CPROVER_loop_invariant(!VERIF_thrown && g_cx->Status >= Prepared && g_cx->Status <= Computed && g_c->Status >= Prepared && g_c->Status <= Computed)
__CPROVER_loop_invariant(cdag_it.pos <= self->mapCreationOperators.gpos ==> (g_hits_rm == 0 && g_hits_cm == 0))
__CPROVER_loop_invariant(cdag_it.pos > self->mapCreationOperators.gpos ==> (g_cx->Status == Computed && (G_ENTRY >= 0 ==> GHOST_DONE)))
__CPROVER_decreases(self->mapCreationOperators.n - cdag_it.pos)
//@loop 2
__CPROVER_assigns(cdag_map_it, cdag_block_map.right.last_pos, g_c->Status, __CPROVER_object_whole(g_c_part), g_hits_rm, g_hits_cm, VERIF_thrown,
                  __CPROVER_object_whole(g_other_c), __CPROVER_object_whole(g_other_part))
__CPROVER_loop_invariant(cdag_map_it.v == &cdag_block_map.right && 0 <= cdag_map_it.pos && cdag_map_it.pos <= cdag_block_map.right.n)
__CPROVER_loop_invariant(!VERIF_thrown && g_c->Status >= Prepared && g_c->Status <= Computed && c->Status >= Prepared && c->Status <= Computed)
__CPROVER_loop_invariant(cdag != g_cx ==> (g_hits_rm == __CPROVER_loop_entry(g_hits_rm) && g_hits_cm == __CPROVER_loop_entry(g_hits_cm)))
/* another creation operator: what the ghost relation received earlier is untouched (its c is another object) */
__CPROVER_loop_invariant((cdag != g_cx && G_ENTRY >= 0 && cdag_it.pos > self->mapCreationOperators.gpos) ==> GHOST_DONE)
__CPROVER_loop_invariant((cdag == g_cx && G_ENTRY >= 0 && cdag_map_it.pos <= G_ENTRY) ==> (g_hits_rm == 0 && g_hits_cm == 0))
__CPROVER_loop_invariant((cdag == g_cx && G_ENTRY >= 0 && cdag_map_it.pos > G_ENTRY) ==> GHOST_DONE)
__CPROVER_decreases(cdag_block_map.right.n - cdag_map_it.pos)
//@end

//@harness h_FOC_computeAll enforce=FieldOperatorContainer_computeAll props=C10 min_obl=7184 reach=4 timeout=450
void h_FOC_computeAll(void)
{
  struct FieldOperatorContainer *p;
  FieldOperatorContainer_computeAll(p);
  REACH("exit");
}

/* ---- mutation record -----------------------------------------------------------------------------------------------------
 * h_FOC_computeAll: elementsRowMajor = ...getColMajorValue().adjoint() -> getRowMajorValue()     FAIL SparseRM_assign.assertion.1 (monitor), loop_invariant_step.6
 *                   `c.getPartFromRightIndex(..->second).Status = Computed;` removed             FAIL computeAll.loop_invariant_step.6/.12 (GHOST_DONE: part Status)
 *                   c.getPartFromRightIndex(..->second).elementsRowMajor -> (..->first)          FAIL SparseRM_assign.assertion.1, loop_invariant_step.5
 */
