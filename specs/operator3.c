/* Operator::getMatrixElement(bra, ket, states): "Returns the matrix element of an operator between two states represented by a linear
 * combination of FockState's" (C05).   <bra|O|ket> = sum_i sum_{(r, m) in O|states[i]>}  bra[pos(r)] * m * ket[i],
 * pos(r) = position of the result state r in `states` (no contribution if r is not listed); components of ket with |ket[i]| <= epsilon
 * are skipped; the documented exception exMelemVanishes iff the three sizes differ.  (Real build: no conjugation of bra.)
 * Operator::actRight(state) (specs/operator2.c) and std::find are ORACLES.  Mutation record at the end. */
#include "../stubs/common.h"
#include "../stubs/cplx.h"
#include "../stubs/bitset.h"
//@include types_common.inc
//@type (boost::)?dynamic_bitset<(unsigned long, std::allocator<unsigned long> ?)?>|(boost::)?dynamic_bitset<Block, Allocator>|(Pomerol::)?FockState => Bitset val
//@type (Pomerol::)?VectorType|Eigen::Matrix<double, -1, 1(, 0)?(, -1, 1)?> => RVec ptr
//@type std::vector<(Pomerol::)?FockState>::const_iterator|__gnu_cxx::__normal_iterator<const boost::dynamic_bitset<.*> => VecFSIt val
//@type std::vector<(Pomerol::)?FockState>|std::vector<boost::dynamic_bitset<[^:]*>(, std::allocator<boost::dynamic_bitset<[^:]*> ?>)?> => VecFS ptr
//@type std::map<(Pomerol::)?FockState, (Pomerol::)?MelemType>::(const_)?iterator|std::_Rb_tree_(const_)?iterator<std::pair<const boost::dynamic_bitset<.*>, double> ?> => MapFMIt val
//@type std::map<(Pomerol::)?FockState, ?(Pomerol::)?MelemType>|std::map<boost::dynamic_bitset<.*>, double.*> => MapFM val
//@free abs(double) => d_abs
//@rename Operator_actRight/1 => Operator_actRight_ket
//@tu src/pomerol/Operator.cpp
#define epsilon() 2.220446049250313e-16
#define VMAX 1000000L
struct Operator { char opaque; };

/* ---- ghost state of the specification */
double g_acc;                 /* SPEC: the running double sum, in the order of the components and of the entries of O|states[i]> */
unsigned long g_star; unsigned long g_hits; int g_expect;     /* ONE arbitrary component i*: how often O was applied to states[i*]; 1 iff |ket[i*]| > epsilon */
long g_cur_i; double g_overlap;          /* the component being processed and its weight ket[i] (recorded when it is read) */
int g_find_done, g_found; unsigned long g_found_pos;   /* std::find in the current entry */
int g_bra_read; long g_bra_j; double g_bra_val;         /* the read of bra in the current entry */

/* Eigen vectors (ASSERTED: coefficient access inside the vector) with the recording reads */
typedef struct RVec { long size; double *data; int is_ket; } RVec;
static inline _Bool RVec_wf(RVec *v) { return 0 <= v->size && v->size <= VMAX && __CPROVER_is_fresh(v->data, (unsigned long)v->size * 8UL); }
static inline long RVec_size(RVec *v) { return v->size; }
static inline double *RVec_at(RVec *v, long i)           /* ket[i] */
{
  __CPROVER_assert(0 <= i && i < v->size, "Eigen vector operator[]: index inside the vector");
  g_cur_i = i; g_overlap = v->data[i];
  return &v->data[i];
}
static inline double *RVec_call(RVec *v, long j)         /* bra(j) */
{
  __CPROVER_assert(0 <= j && j < v->size, "Eigen vector operator(): index inside the vector");
  g_bra_read = 1; g_bra_j = j; g_bra_val = v->data[j];
  return &v->data[j];
}
/* std::vector<FockState> states: contents arbitrary (they matter only through the oracles) */
typedef struct VecFS { unsigned long size; Bitset scratch; } VecFS;
typedef struct VecFSIt { VecFS *v; unsigned long pos; } VecFSIt;
static inline unsigned long VecFS_size(VecFS *v) { return v->size; }
static inline Bitset *VecFS_at(VecFS *v, unsigned long i)
{ __CPROVER_assert(i < v->size, "vector<FockState>::operator[]: index < size()"); v->scratch.w = nondet_ulong(); v->scratch.size = nondet_ulong(); return &v->scratch; }
#define VecFS_begin(v_) ((VecFSIt){ (v_), 0UL })
#define VecFS_end(v_) ((VecFSIt){ (v_), (v_)->size })
#define op_ne_VecFSIt_VecFSIt(a, b) ((a)->pos != (b)->pos)
/* ORACLE std::find(first, last, value): the first position holding `value`, or last */
static inline VecFSIt find(VecFSIt first, VecFSIt last, Bitset value)
{
  VecFSIt r; r.v = first.v; r.pos = nondet_ulong(); (void)value;
  __CPROVER_assume(first.pos <= r.pos && r.pos <= last.pos);
  g_find_done = 1; g_found = (r.pos != last.pos); g_found_pos = r.pos;
  if (g_found) REACH("listed"); else REACH("not-listed");
  return r;
}
static inline long distance(VecFSIt a, VecFSIt b) { return (long)(b.pos - a.pos); }

/* ORACLE Operator::actRight(state) (virtual): a map with n entries (result state, amplitude), visited in order; `cur` is the entry
 * under the iterator.  MONITORS: O is applied only to components with |ket[i]| > epsilon; at the end of every entry (iterator
 * increment) the specification adds  bra[pos] * amplitude * ket[i]  to g_acc. */
typedef struct PairFM { Bitset first; double second; } PairFM;
typedef struct MapFM { unsigned long n; PairFM cur; } MapFM;
typedef struct MapFMIt { MapFM *m; unsigned long pos; } MapFMIt;
static inline void mapfm_refresh(MapFM *m)
{ m->cur.first.w = nondet_ulong(); m->cur.first.size = nondet_ulong(); m->cur.second = nondet_double(); g_find_done = 0; g_found = 0; g_bra_read = 0; }
static inline MapFM Operator_actRight_ket(struct Operator *self, Bitset st)
{
  MapFM r; (void)self; (void)st;
  __CPROVER_assert(D_GT(d_abs(g_overlap), epsilon()), "C05: O is applied only to components with |ket[i]| > epsilon");
  if ((unsigned long)g_cur_i == g_star) { g_hits++; REACH("ghost-component"); }
  r.n = nondet_ulong(); __CPROVER_assume(r.n <= (unsigned long)VMAX);
  return r;
}
static inline MapFMIt MapFM_begin_fn(MapFM *m) { MapFMIt it; it.m = m; it.pos = 0; mapfm_refresh(m); return it; }
#define MapFM_begin(m_) (((MapFMIt[1]){ MapFM_begin_fn(m_) })[0])
#define MapFM_end(m_) (((MapFMIt[1]){ { (m_), (m_)->n } })[0])
#define MapFMIt_ctor1(p_) (*(p_))                 /* const_iterator(iterator) */
#define op_ne_MapFMIt_MapFMIt(a, b) ((a)->pos != (b)->pos)
static inline PairFM *MapFMIt_arrow(MapFMIt *it)
{ __CPROVER_assert(it->pos < it->m->n, "map<FockState,MelemType>::const_iterator dereferenced before end()"); return &it->m->cur; }
static inline void MapFMIt_postinc(MapFMIt *it)
{
  __CPROVER_assert(g_find_done, "C05: the result state of every entry is looked up in `states`");
  __CPROVER_assert(!g_found || (g_bra_read && g_bra_j >= 0 && (unsigned long)g_bra_j == g_found_pos), "C05: bra is read at the position of the result state");
  double o2 = g_found ? g_bra_val : 0.0;
  g_acc = D_ADD(g_acc, D_MUL(D_MUL(o2, it->m->cur.second), g_overlap));
  it->pos++; mapfm_refresh(it->m);
  REACH("entry");
}

#define D_SAME_LV(a, b) (*(const unsigned long *)&(a) == *(const unsigned long *)&(b))
/* twins for the other spelling of an increment (`++it` for `it++` and vice versa): same effect.  X_inc yields the iterator after the step
 * (exact); X_postinc made from X_inc is void, so a use of its value does not compile (UNDECIDED) instead of being modelled wrongly */
#define MapFMIt_inc(it_) (MapFMIt_postinc(it_), (it_))      /* pre-increment: the iterator itself, after the step */
//@function Pomerol::Operator::getMatrixElement(Eigen::Matrix<double, -1, 1, 0, -1, 1> const&, Eigen::Matrix<double, -1, 1, 0, -1, 1> const&, std::vector<boost::dynamic_bitset<unsigned long, std::allocator<unsigned long> >, std::allocator<boost::dynamic_bitset<unsigned long, std::allocator<unsigned long> > > > const&) const as Operator_getMatrixElement_v
//@contract
__CPROVER_requires(__CPROVER_is_fresh(self, sizeof(*self)) && !VERIF_thrown)
__CPROVER_requires(__CPROVER_is_fresh(bra, sizeof(*bra)) && RVec_wf(bra) && __CPROVER_is_fresh(ket, sizeof(*ket)) && RVec_wf(ket))
__CPROVER_requires(__CPROVER_is_fresh(states, sizeof(*states)) && states->size <= (unsigned long)VMAX)
__CPROVER_requires(D_SAME(g_acc, 0.0) && g_hits == 0)
__CPROVER_requires(g_expect == ((g_star < (unsigned long)ket->size && D_GT(d_abs(ket->data[g_star]), epsilon())) ? 1 : 0))
__CPROVER_assigns(VERIF_thrown, g_acc, g_hits, g_cur_i, g_overlap, g_find_done, g_found, g_found_pos, g_bra_read, g_bra_j, g_bra_val, states->scratch)
/* documented exception: the sizes of bra, ket and states must agree */
__CPROVER_ensures(VERIF_thrown == (bra->size != ket->size || (unsigned long)bra->size != states->size))
/* the value is the specification's sum; O was applied to states[i*] exactly once iff |ket[i*]| > epsilon */
__CPROVER_ensures(!VERIF_thrown ==> (D_SAME(__CPROVER_return_value, g_acc) && g_hits == (unsigned long)g_expect))
//@loop 1
__CPROVER_assigns(i, melem, g_acc, g_hits, g_cur_i, g_overlap, g_find_done, g_found, g_found_pos, g_bra_read, g_bra_j, g_bra_val, states->scratch)
__CPROVER_loop_invariant(0 <= i && (long)i <= ket->size && !VERIF_thrown && D_SAME_LV(melem, g_acc))
__CPROVER_loop_invariant(g_hits == ((g_star < (unsigned long)i) ? (unsigned long)g_expect : 0UL))
__CPROVER_decreases(ket->size - (long)i)
//@loop 2
__CPROVER_assigns(it.pos, map1.cur, melem, g_acc, g_find_done, g_found, g_found_pos, g_bra_read, g_bra_j, g_bra_val)
__CPROVER_loop_invariant(it.m == &map1 && it.pos <= map1.n && D_SAME_LV(melem, g_acc) && g_find_done == 0 && g_found == 0 && g_bra_read == 0)
__CPROVER_loop_invariant(D_SAME_LV(overlap, g_overlap))
__CPROVER_decreases(map1.n - it.pos)
//@end
//@harness h_Operator_getMatrixElement_v enforce=Operator_getMatrixElement_v props=C05,C17 reach=6 timeout=240 min_obl=686
void h_Operator_getMatrixElement_v(void)
{
  struct Operator *o; RVec *b, *k; VecFS *s;
  VERIF_thrown = 0; g_acc = 0.0; g_hits = 0; g_star = nondet_ulong(); g_expect = nondet_int();
  double r = Operator_getMatrixElement_v(o, b, k, s);
  REACH("exit");
  if (VERIF_thrown) REACH("rejected");
}

/* ======================= MUTATION RECORD (tools/try_mutant.py; all killed) =======================
 * `melem += ...` -> `melem -= ...`                                   Operator_getMatrixElement_v_wrapped_for_contract_checking.5/.13 (loop-invariant steps: melem == spec sum)
 * `melem += overlap2 * melem2 * overlap` -> `overlap2 * melem2`      same two
 * `bra(j)` -> `bra(i)`                                               MapFMIt_postinc.assertion.2 (bra is read at the position of the result state)
 * `std::abs(overlap) > eps` -> `<`                                   Operator_actRight_ket.assertion.1, loop_invariant_step.2
 * size test reduced to `bra.size()!=ket.size()`                      Operator_getMatrixElement_v.postcondition.1, VecFS_at.assertion.1, RVec_call.assertion.1
 * NOT PROVED: that std::find / actRight return what they should (oracles); the complex build (conjugation of bra). */
