/* Susceptibility -- selection of the block pairs <l|A|r><r|B|l> by a merge walk over A.left and B.right (C14, C19),
 * summation over the parts and subtraction of the disconnected part (C14).
 * Mutants and what is / is not proved: see the comment at the end of the file. */
#include "../stubs/common.h"
#include "../stubs/cplx.h"
#include "../stubs/bimap.h"
//@include types_common.inc
//@include types_bimap.inc
//@type std::list<(Pomerol::)?SusceptibilityPart \*(, std::allocator<.*>)?> => PartList ptr
//@type std::list<(Pomerol::)?SusceptibilityPart \*(, std::allocator<.*>)?>::(const_)?iterator|std::_List_(const_)?iterator<(Pomerol::)?SusceptibilityPart \*> => PartListIt val
//@record Pomerol::QuadraticOperator => struct FieldOperator ptr
//@record Pomerol::QuadraticOperatorPart => struct FieldOperatorPart ptr
//@tu src/pomerol/Susceptibility.cpp
//@enum ComputableObject::

/* ---- opaque part handles.  The parts themselves are not touched by prepare(); a handle is an injective function of
 * (owner, block number): base address of a one-element ghost array inside the owner + block number (never dereferenced). */
struct FieldOperatorPart { char opaque; };
struct HamiltonianPart { char opaque; };
struct DensityMatrixPart { char opaque; };
struct SusceptibilityPart { char opaque; };
struct Hamiltonian { long nblocks; struct HamiltonianPart ghost_parts[1]; };
struct DensityMatrix { double beta; long nblocks; struct DensityMatrixPart ghost_parts[1]; };
struct StatesClassification;
//@struct Pomerol::FieldOperator only=Status,LeftRightBlocks
//@extra
struct FieldOperatorPart ghost_parts_by_left[1];    /* handle of the part whose LEFT block is l:  &ghost_parts_by_left[0] + l  */
struct FieldOperatorPart ghost_parts_by_right[1];
long ghost_id;                                     /* identity of the operator (argument of the <Op> oracle) */   /* handle of the part whose RIGHT block is r: &ghost_parts_by_right[0] + r */
//@end
#define PART_BY_LEFT(op, l) (&(op)->ghost_parts_by_left[0] + (l))
#define PART_BY_RIGHT(op, r) (&(op)->ghost_parts_by_right[0] + (r))
#define H_PART(h, b) (&(h)->ghost_parts[0] + (b))
#define DM_PART(d, b) (&(d)->ghost_parts[0] + (b))

/* ---- std::list<SusceptibilityPart*> (TRUSTED: push_back appends, size() counts, iteration visits the elements in order).
 * Part handles are opaque and never dereferenced, so the list is modelled by its length (as in gf.c): the element at position k is
 * the canonical handle &g_new_parts[0] + k.  push_back asserts that what is appended is the handle of the part created last and
 * that it is the (n+1)-th one, so after prepare() the element at position k IS the k-th created part; for compute() / evaluation /
 * copying of an arbitrary list the names of the handles are immaterial.  Iterator = index, as in bimap.h. */
#define PL_MAX 1000000L
struct SusceptibilityPart g_new_parts[1];   /* handles: &g_new_parts[0] + ordinal */
#define PART_AT(k) (&g_new_parts[0] + (k))
typedef struct PartList {
  unsigned long n; struct SusceptibilityPart *last;
  struct SusceptibilityPart *cur;   /* slot that `*it` refers to */
  /* ghost */ long gidx;      /* ONE arbitrary position (or -1) */
  long last_pos;              /* position of the most recent dereference */
} PartList;
typedef struct PartListIt { PartList *l; long pos; } PartListIt;
struct SusceptibilityPart *g_last_new;   /* result of the most recent `new SusceptibilityPart(...)` */
unsigned long g_n_new;                   /* number of parts created */
static inline void PartList_push_back(PartList *l, struct SusceptibilityPart *p)
{
  __CPROVER_assert(p == g_last_new && l->n + 1 == g_n_new, "C14: what is appended to the list is the part just created");
  l->n++; l->last = p;
}
static inline unsigned long PartList_size(PartList *l) { return l->n; }
static inline _Bool PartList_wf(PartList *l)
{ return l->n <= PL_MAX && (l->gidx == -1 || (0 <= l->gidx && l->gidx < (long)l->n)); }
#define PartList_begin(l_) ((PartListIt){ (l_), 0 })
#define PartList_end(l_) ((PartListIt){ (l_), (long)(l_)->n })
#define op_ne_PartListIt_PartListIt(a, b) ((a)->pos != (b)->pos)
#define PartListIt_postinc(it) ({ __CPROVER_assert(0 <= (it)->pos && (it)->pos < (long)(it)->l->n, "std::list: end() is not incremented"); (it)->pos++; })
#define PartListIt_mul(it) ({ \
  __CPROVER_assert(0 <= (it)->pos && (it)->pos < (long)(it)->l->n, "std::list: iterator dereferenced only before end()"); \
  (it)->l->last_pos = (it)->pos; \
  (it)->l->cur = PART_AT((it)->pos); \
  &(it)->l->cur; })

//@struct Pomerol::Susceptibility embed=A,B,H,DM

struct Susceptibility *g_self;   /* the object under verification (for the monitors) */
long g_hits;                     /* number of parts created for the ghost pair of relations */
long g_expected;                 /* expected value of g_hits (pre-state) */

/* C19: retained(b) is an opaque oracle of the block number (DensityMatrix::isRetained(b) = parts[b]->isRetained(), not modified here) */
_Bool __CPROVER_uninterpreted_retained(int);
/* callee contracts (pomerol functions outside this package; their pre-conditions are obligations of prepare()):
 *   DensityMatrix::isRetained(b), DensityMatrix::getPart(b), Hamiltonian::getPart(b) index `parts[b]`: b must be a block number. */
static inline _Bool DensityMatrix_isRetained(struct DensityMatrix *dm, BlockNumber in)
{
  __CPROVER_assert(0 <= in.number && in.number < dm->nblocks, "DensityMatrix::isRetained: block number inside parts[]");
  return __CPROVER_uninterpreted_retained(in.number);
}
static inline struct DensityMatrixPart *DensityMatrix_getPart(struct DensityMatrix *dm, BlockNumber in)
{
  __CPROVER_assert(0 <= in.number && in.number < dm->nblocks, "DensityMatrix::getPart: block number inside parts[]");
  return DM_PART(dm, in.number);
}
static inline struct HamiltonianPart *Hamiltonian_getPart(struct Hamiltonian *h, BlockNumber in)
{
  __CPROVER_assert(0 <= in.number && in.number < h->nblocks, "Hamiltonian::getPart: block number inside parts[]");
  return H_PART(h, in.number);
}
/*   FieldOperator::getPartFromLeftIndex(l) = *parts[mapPartsFromLeft.find(l)->second]: l must be a LEFT key of LeftRightBlocks
 *   (find() is dereferenced unchecked); witness: the relation the left iterator was dereferenced at last.  Same for Right.
 *   Both throw exStatusMismatch when the operator is not prepared. */
static inline struct FieldOperatorPart *FieldOperator_getPartFromLeftIndex(struct FieldOperator *op, BlockNumber in)
{
  if (op->Status < Prepared) { VERIF_THROW("exStatusMismatch"); return (struct FieldOperatorPart *)0; }
  BiView *v = &op->LeftRightBlocks.left;
  __CPROVER_assert(0 <= v->last_pos && v->last_pos < v->n && v->e[v->last_pos].first.number == in.number,
                   "FieldOperator::getPartFromLeftIndex: the argument is a left block of the operator");
  return PART_BY_LEFT(op, in.number);
}
static inline struct FieldOperatorPart *FieldOperator_getPartFromRightIndex(struct FieldOperator *op, BlockNumber in)
{
  if (op->Status < Prepared) { VERIF_THROW("exStatusMismatch"); return (struct FieldOperatorPart *)0; }
  BiView *v = &op->LeftRightBlocks.right;
  __CPROVER_assert(0 <= v->last_pos && v->last_pos < v->n && v->e[v->last_pos].first.number == in.number,
                   "FieldOperator::getPartFromRightIndex: the argument is a right block of the operator");
  return PART_BY_RIGHT(op, in.number);
}

/* SPEC (Susceptibility.h, SusceptibilityPart.h, C14/C19): for every relation <l|A|r> of A and <r'|B|l'> of B with l' == l and
 * r' == r, exactly one part SusceptibilityPart(A-part with left block l, B-part with right block l, H(r), H(l), DM(r), DM(l))
 * -- inner block = r (columns of A), outer block = l (rows of A) -- iff the block l or the block r is retained; nothing else. */
#define AL (&g_self->A.LeftRightBlocks.left)
#define BR (&g_self->B.LeftRightBlocks.right)
#define MATCH(p, q) (AL->e[p].first.number == BR->e[q].first.number && AL->e[p].second.number == BR->e[q].second.number)
struct SusceptibilityPart *SusceptibilityPart_new6(struct FieldOperatorPart *Apart, struct FieldOperatorPart *Bpart,
    struct HamiltonianPart *HInner, struct HamiltonianPart *HOuter, struct DensityMatrixPart *DMInner, struct DensityMatrixPart *DMOuter)
{
  long p = AL->last_pos, q = BR->last_pos;
  /* soundness: a part is created only while the iterators are on a matching pair of relations ... */
  __CPROVER_assert(0 <= p && p < AL->n && 0 <= q && q < BR->n, "C14: a part is created only while both iterators are on relations");
  __CPROVER_assert(MATCH(p, q), "C14: a part is created only for <l|A|r><r|B|l>");
  int l = AL->e[p].first.number, r = AL->e[p].second.number;
  /* ... of which at least one block is retained ... */
  __CPROVER_assert(__CPROVER_uninterpreted_retained(l) || __CPROVER_uninterpreted_retained(r), "C19: no part for a stripe of discarded blocks");
  /* ... from the documented constituents */
  __CPROVER_assert(Apart == PART_BY_LEFT(&g_self->A, l), "C14: first operator part = part of A with left block l");
  __CPROVER_assert(Bpart == PART_BY_RIGHT(&g_self->B, l), "C14: second operator part = part of B with right block l");
  __CPROVER_assert(HInner == H_PART(&g_self->H, r) && HOuter == H_PART(&g_self->H, l), "C14: Hamiltonian parts: inner = r, outer = l");
  __CPROVER_assert(DMInner == DM_PART(&g_self->DM, r) && DMOuter == DM_PART(&g_self->DM, l), "C14: density-matrix parts: inner = r, outer = l");
  if (p == AL->gpos && q == BR->gpos) g_hits++;
  g_last_new = &g_new_parts[0] + g_n_new;
  g_n_new++;
  REACH("new_part");
  return g_last_new;
}

//@tu src/pomerol/StatesClassification.cpp
/* twins for the other spelling of an increment (`++it` for `it++` and vice versa): same effect.  X_inc yields the iterator after the step
 * (exact); X_postinc made from X_inc is void, so a use of its value does not compile (UNDECIDED) instead of being modelled wrongly */
#define PartListIt_inc(it_) (PartListIt_postinc(it_), (it_))      /* pre-increment: the iterator itself, after the step */
//@function Pomerol::BlockNumber::operator==(Pomerol::BlockNumber const&) const as BlockNumber_eq
//@end
//@function Pomerol::BlockNumber::operator int() const as BlockNumber_conv_int
//@end
//@tu src/pomerol/FieldOperator.cpp
//@maythrow FieldOperator_getBlockMapping FieldOperator_getPartFromLeftIndex FieldOperator_getPartFromRightIndex
//@function Pomerol::FieldOperator::getBlockMapping() const as FieldOperator_getBlockMapping
//@end
//@tu src/pomerol/Susceptibility.cpp

#define SAL (&self->A.LeftRightBlocks.left)
#define SBR (&self->B.LeftRightBlocks.right)
#define GHOST_MATCH (SAL->gpos >= 0 && SBR->gpos >= 0 && MATCH(SAL->gpos, SBR->gpos))
#define EXPECTED_HITS ((GHOST_MATCH && (__CPROVER_uninterpreted_retained(SAL->e[SAL->gpos].first.number) || __CPROVER_uninterpreted_retained(SAL->e[SAL->gpos].second.number))) ? 1 : 0)
//@function Pomerol::Susceptibility::prepare() as Susceptibility_prepare
//@contract
__CPROVER_requires(__CPROVER_is_fresh(self, sizeof(*self)) && g_self == self)
/* type invariants: the two views that are walked; every stored number is a block number of the model (bimap.h B3) */
__CPROVER_requires(BiView_wf(SAL) && BiView_wf(SBR))
__CPROVER_requires(self->H.nblocks == self->DM.nblocks && SAL->kmax == self->H.nblocks && SBR->kmax == self->H.nblocks)
/* state after the constructor (or after an earlier prepare()) */
__CPROVER_requires(self->Status >= Prepared || (self->Vanishing && self->parts.n == 0))
/* ghost pair: ONE arbitrary relation of A (left view) and ONE arbitrary relation of B (right view), matching or not */
__CPROVER_requires(g_hits == 0 && g_n_new == 0 && !VERIF_thrown && g_expected == EXPECTED_HITS)
__CPROVER_assigns(self->parts.n, self->parts.last, self->Vanishing, self->Status, g_hits, g_n_new, g_last_new, VERIF_thrown,
                  self->A.LeftRightBlocks.left.last_pos, self->B.LeftRightBlocks.right.last_pos)
/* already prepared: nothing happens */
__CPROVER_ensures(__CPROVER_old(self->Status) >= Prepared ==>
    (!VERIF_thrown && g_n_new == 0 && self->Status == __CPROVER_old(self->Status) && !self->Vanishing == !__CPROVER_old(self->Vanishing) && self->parts.n == __CPROVER_old(self->parts.n)))
/* an operator that is not prepared: exStatusMismatch, nothing created, status unchanged */
__CPROVER_ensures(__CPROVER_old(self->Status) < Prepared ==> (VERIF_thrown == (self->A.Status < Prepared || self->B.Status < Prepared)))
__CPROVER_ensures(VERIF_thrown ==> (g_n_new == 0 && self->parts.n == 0 && self->Vanishing && self->Status == __CPROVER_old(self->Status)))
/* normal exit */
__CPROVER_ensures((__CPROVER_old(self->Status) < Prepared && !VERIF_thrown) ==> self->Status == Prepared)
/* completeness + uniqueness + C19: the ghost pair yields exactly one part iff it matches and l or r is retained */
__CPROVER_ensures((__CPROVER_old(self->Status) < Prepared && !VERIF_thrown) ? g_hits == g_expected : g_hits == 0)
/* every created part is in the list, and Vanishing <=> no part */
__CPROVER_ensures((__CPROVER_old(self->Status) < Prepared && !VERIF_thrown) ==> (self->parts.n == g_n_new && !self->Vanishing == (self->parts.n != 0)))
/* at most one part per relation of A and per relation of B */
__CPROVER_ensures((__CPROVER_old(self->Status) < Prepared && !VERIF_thrown) ==> (self->parts.n <= (unsigned long)SAL->n && self->parts.n <= (unsigned long)SBR->n))
//@loop 1
__CPROVER_assigns(Aiter.pos, Biter.pos, self->parts.n, self->parts.last, g_hits, g_n_new, g_last_new, VERIF_thrown,
                  self->A.LeftRightBlocks.left.last_pos, self->B.LeftRightBlocks.right.last_pos)
__CPROVER_loop_invariant(Aiter.v == SAL && Biter.v == SBR && ANontrivialBlocks == &self->A.LeftRightBlocks && BNontrivialBlocks == &self->B.LeftRightBlocks)
__CPROVER_loop_invariant(0 <= Aiter.pos && Aiter.pos <= SAL->n && 0 <= Biter.pos && Biter.pos <= SBR->n)
__CPROVER_loop_invariant(!VERIF_thrown)
__CPROVER_loop_invariant(self->parts.n == g_n_new && g_n_new <= (unsigned long)Aiter.pos && g_n_new <= (unsigned long)Biter.pos)
__CPROVER_loop_invariant(GHOST_MATCH
     ? ((g_hits == 0 && Aiter.pos <= SAL->gpos && Biter.pos <= SBR->gpos) ||
        (g_hits == g_expected && Aiter.pos > SAL->gpos && Biter.pos > SBR->gpos))
     : g_hits == 0)
__CPROVER_decreases((SAL->n - Aiter.pos) + (SBR->n - Biter.pos))
//@end

//@harness h_Susc_prepare enforce=Susceptibility_prepare props=C14,C19 min_obl=2312 timeout=300 reach=4
void h_Susc_prepare(void)
{
  struct Susceptibility *chi;
  Susceptibility_prepare(chi);
  if (VERIF_thrown) REACH("thrown");
  else if (g_n_new == 0) REACH("exit_vanishing");
  else REACH("exit_parts");
}

/* ================================================================================================================
 * compute() (Susceptibility.h: "Actually computes the parts"): nothing if already computed; prepare() first if needed (its
 * CONTRACT is used at the call); then SusceptibilityPart::compute() (under contract in suscpart.c) on every part of the list
 * exactly once (monitor: the part computed is the list element the iterator is on, positions strictly increase, so no part twice;
 * ghost position: computed exactly once; number of compute() calls = number of parts); Status = Computed.  If prepare() throws
 * (an operator is not prepared) nothing is computed and the status is unchanged.  A second call does nothing. */
#define PREPARE_FRAME self->parts.n, self->parts.last, self->Vanishing, self->Status, g_hits, g_n_new, g_last_new, VERIF_thrown, \
                  self->A.LeftRightBlocks.left.last_pos, self->B.LeftRightBlocks.right.last_pos
long g_computes;          /* compute() calls on the part at the ghost position */
long g_last_computed;     /* position of the part computed last */
unsigned long g_n_computes;
void SusceptibilityPart_compute(struct SusceptibilityPart *part)
{
  PartList *l = &g_self->parts; long k = l->last_pos;
  __CPROVER_assert(0 <= k && k < (long)l->n && part == PART_AT(k), "C14: the part computed is the list element the iterator is on");
  __CPROVER_assert(k > g_last_computed, "C14: every part is computed at most once");
  g_last_computed = k; g_n_computes++;
  if (k == l->gidx) g_computes++;
  REACH("part_compute");
}
//@maythrow Susceptibility_prepare
//@function Pomerol::Susceptibility::compute() as Susceptibility_compute
//@contract
__CPROVER_requires(__CPROVER_is_fresh(self, sizeof(*self)) && g_self == self)
/* pre-conditions of prepare() (only needed when Status < Prepared) */
__CPROVER_requires(BiView_wf(SAL) && BiView_wf(SBR))
__CPROVER_requires(self->H.nblocks == self->DM.nblocks && SAL->kmax == self->H.nblocks && SBR->kmax == self->H.nblocks)
__CPROVER_requires(self->Status >= Prepared || (self->Vanishing && self->parts.n == 0))
__CPROVER_requires(g_hits == 0 && g_n_new == 0 && !VERIF_thrown && g_expected == EXPECTED_HITS)
__CPROVER_requires(PartList_wf(&self->parts) && g_computes == 0 && g_n_computes == 0 && g_last_computed == -1)
__CPROVER_assigns(PREPARE_FRAME, self->parts.cur, self->parts.last_pos, g_computes, g_n_computes, g_last_computed)
/* already computed: nothing happens */
__CPROVER_ensures(__CPROVER_old(self->Status) >= Computed ==>
    (!VERIF_thrown && g_n_new == 0 && g_n_computes == 0 && self->Status == __CPROVER_old(self->Status) && self->parts.n == __CPROVER_old(self->parts.n) && !self->Vanishing == !__CPROVER_old(self->Vanishing)))
/* prepare() is run iff the object was not prepared (then its post-conditions hold: g_hits == g_expected etc.) */
__CPROVER_ensures(__CPROVER_old(self->Status) >= Prepared ==> (!VERIF_thrown && g_n_new == 0 && self->parts.n == __CPROVER_old(self->parts.n) && !self->Vanishing == !__CPROVER_old(self->Vanishing)))
__CPROVER_ensures(__CPROVER_old(self->Status) < Prepared ==> (VERIF_thrown == (self->A.Status < Prepared || self->B.Status < Prepared)))
__CPROVER_ensures((__CPROVER_old(self->Status) < Prepared && !VERIF_thrown) ==> (g_hits == g_expected && self->parts.n == g_n_new && !self->Vanishing == (self->parts.n != 0)))
__CPROVER_ensures(VERIF_thrown ==> (g_n_computes == 0 && self->Status == __CPROVER_old(self->Status)))
/* every part of the list is computed exactly once */
__CPROVER_ensures((__CPROVER_old(self->Status) < Computed && !VERIF_thrown) ==>
    (self->Status == Computed && g_n_computes == self->parts.n && g_computes == ((0 <= self->parts.gidx && self->parts.gidx < (long)self->parts.n) ? 1 : 0)))
//@loop 1
__CPROVER_assigns(iter.pos, self->parts.cur, self->parts.last_pos, g_computes, g_n_computes, g_last_computed)
__CPROVER_loop_invariant(iter.l == &self->parts && 0 <= iter.pos && iter.pos <= (long)self->parts.n)
__CPROVER_loop_invariant(g_last_computed == iter.pos - 1 && g_n_computes == (unsigned long)iter.pos)
__CPROVER_loop_invariant(g_computes == ((0 <= self->parts.gidx && self->parts.gidx < iter.pos) ? 1 : 0))
__CPROVER_decreases((long)self->parts.n - iter.pos)
//@end

//@harness h_Susc_compute enforce=Susceptibility_compute replace=Susceptibility_prepare props=C14 min_obl=1128 timeout=120 reach=5
void h_Susc_compute(void)
{
  struct Susceptibility *chi;
  Susceptibility_compute(chi);
  if (VERIF_thrown) REACH("thrown");
  else if (g_n_computes == 0) REACH("exit_nothing_computed");
  else if (g_n_new == 0) REACH("exit_computed_prepared_before");
  else REACH("exit_computed_after_prepare");
}

/* isVanishing() (Susceptibility.h: the flag "if Greens function vanishes, i.e. identical to 0"; prepare() proves Vanishing <=> no part) */
//@function Pomerol::Susceptibility::isVanishing() const as Susceptibility_isVanishing
//@contract
__CPROVER_requires(__CPROVER_is_fresh(self, sizeof(*self)))
__CPROVER_assigns()
__CPROVER_ensures(!__CPROVER_return_value == !self->Vanishing)
//@end

//@harness h_Susc_isVanishing enforce=Susceptibility_isVanishing props=C14 min_obl=33 timeout=120 reach=1
void h_Susc_isVanishing(void) { struct Susceptibility *chi; Susceptibility_isVanishing(chi); REACH("exit"); }

/* ================================================================================================================
 * Evaluation (Susceptibility.h, C14):
 *   chi(z)    = sum over the parts of part(z)      [ - beta*<A><B>  iff subtraction is enabled and |z| < 1e-15 (W_n = 0) ]
 *   chi(n)    = chi(MatsubaraSpacing * 2n)         bosonic frequency
 *   chi(tau)  = sum over the parts of part.of_tau(tau)   [ - <A><B> iff subtraction is enabled ]
 * The value of ONE part (SusceptibilityPart::operator()(z) / of_tau, under contract in suscpart.c) is an opaque function of
 * (position in the list, argument).  The sum is stated through a MODEL g_sum that the part-evaluation monitor advances by
 * `sum := sum + value` at every call; the loop invariant forces the function's accumulator to equal the model (bit pattern),
 * the ghost position proves that an arbitrary part is evaluated exactly once (none if Vanishing). */
double __CPROVER_uninterpreted_partval_re(long, double, double);
double __CPROVER_uninterpreted_partval_im(long, double, double);
double __CPROVER_uninterpreted_parttau_re(long, double);
double __CPROVER_uninterpreted_parttau_im(long, double);
cplx g_sum;                       /* model of the running sum */
unsigned long g_sum_re, g_sum_im; /* its bit pattern (loop invariants may not call d_bits) */
cplx g_z; double g_tau;           /* the argument every part must be evaluated at */
long g_evals;                     /* evaluations of the part at the ghost position */
#define BITS(x) (*(unsigned long *)&(x))
static void model_add(cplx r)
{
  g_sum = op_add_cplx_cplx(g_sum, r);
  g_sum_re = d_bits(g_sum.re); g_sum_im = d_bits(g_sum.im);
}
cplx SusceptibilityPart_call(struct SusceptibilityPart *part, cplx z)
{
  PartList *l = &g_self->parts; long k = l->last_pos;
  __CPROVER_assert(0 <= k && k < (long)l->n && part == PART_AT(k), "C14: the part evaluated is the list element the iterator is on");
  __CPROVER_assert(C_SAME(z, g_z), "C14: every part is evaluated at the frequency z");
  cplx r = cplx_ctor2(__CPROVER_uninterpreted_partval_re(k, z.re, z.im), __CPROVER_uninterpreted_partval_im(k, z.re, z.im));
  model_add(r);
  if (k == l->gidx) g_evals++;
  REACH("part_z");
  return r;
}
cplx SusceptibilityPart_of_tau(struct SusceptibilityPart *part, double tau)
{
  PartList *l = &g_self->parts; long k = l->last_pos;
  __CPROVER_assert(0 <= k && k < (long)l->n && part == PART_AT(k), "C14: the part evaluated is the list element the iterator is on");
  __CPROVER_assert(D_SAME(tau, g_tau), "C14: every part is evaluated at the time tau");
  cplx r = cplx_ctor2(__CPROVER_uninterpreted_parttau_re(k, tau), __CPROVER_uninterpreted_parttau_im(k, tau));
  model_add(r);
  if (k == l->gidx) g_evals++;
  REACH("part_tau");
  return r;
}
#define SUM_IS_ZERO (g_sum_re == 0 && g_sum_im == 0 && BITS(g_sum.re) == 0 && BITS(g_sum.im) == 0)
#define EVAL_PRE(self) (__CPROVER_is_fresh(self, sizeof(*self)) && g_self == self && PartList_wf(&self->parts) && g_evals == 0 && SUM_IS_ZERO)
#define EXPECTED_EVALS(self) ((!(self)->Vanishing && (self)->parts.gidx >= 0) ? 1 : 0)
#define DISCONNECTED(self) op_mul_cplx_cplx((self)->ave_A, (self)->ave_B)

//@free abs(cplx) => c_abs
//@rename Susceptibility_call/1 => Susceptibility_call_z
//@function Pomerol::Susceptibility::operator()(std::complex<double>) const as Susceptibility_call_z
//@contract
__CPROVER_requires(EVAL_PRE(self) && C_SAME(g_z, z))
__CPROVER_assigns(g_sum, g_sum_re, g_sum_im, g_evals, self->parts.last_pos, self->parts.cur)
/* an arbitrary part is evaluated exactly once, none if the susceptibility vanishes */
__CPROVER_ensures(g_evals == EXPECTED_EVALS(self))
__CPROVER_ensures(self->Vanishing ==> SUM_IS_ZERO)
/* result = sum [ - beta*ave_A*ave_B at zero frequency when subtraction is enabled ]: with - without = that term */
__CPROVER_ensures(C_SAME(__CPROVER_return_value,
    (self->SubtractDisconnected && D_LT(c_abs(z), 1e-15)) ? op_sub_cplx_cplx(g_sum, op_mul_cplx_double(DISCONNECTED(self), self->beta)) : g_sum))
//@loop 1
__CPROVER_assigns(iter.pos, Value, g_sum, g_sum_re, g_sum_im, g_evals, self->parts.last_pos, self->parts.cur)
__CPROVER_loop_invariant(iter.l == &self->parts && 0 <= iter.pos && iter.pos <= (long)self->parts.n)
__CPROVER_loop_invariant(BITS(Value.re) == g_sum_re && BITS(Value.im) == g_sum_im && BITS(g_sum.re) == g_sum_re && BITS(g_sum.im) == g_sum_im)
__CPROVER_loop_invariant(g_evals == ((self->parts.gidx >= 0 && iter.pos > self->parts.gidx) ? 1 : 0))
__CPROVER_decreases((long)self->parts.n - iter.pos)
//@end

//@function Pomerol::Susceptibility::operator()(long) const as Susceptibility_call_n
//@contract
/* LIMIT: 2*n must be representable (|n| < 2^62) */
__CPROVER_requires(-(1L << 62) <= MatsubaraNumber && MatsubaraNumber < (1L << 62))
__CPROVER_requires(EVAL_PRE(self) && C_SAME(g_z, op_mul_cplx_double(self->MatsubaraSpacing, (double)(2 * MatsubaraNumber))))
__CPROVER_assigns(g_sum, g_sum_re, g_sum_im, g_evals, self->parts.last_pos, self->parts.cur)
__CPROVER_ensures(g_evals == EXPECTED_EVALS(self))
/* the value at the bosonic frequency z = MatsubaraSpacing*2n (every part is evaluated there: monitor) */
__CPROVER_ensures(C_SAME(__CPROVER_return_value,
    (self->SubtractDisconnected && D_LT(c_abs(g_z), 1e-15)) ? op_sub_cplx_cplx(g_sum, op_mul_cplx_double(DISCONNECTED(self), self->beta)) : g_sum))
//@end

//@function Pomerol::Susceptibility::of_tau(double) const as Susceptibility_of_tau
//@contract
__CPROVER_requires(EVAL_PRE(self) && D_SAME(g_tau, tau))
__CPROVER_assigns(g_sum, g_sum_re, g_sum_im, g_evals, self->parts.last_pos, self->parts.cur)
__CPROVER_ensures(g_evals == EXPECTED_EVALS(self))
__CPROVER_ensures(self->Vanishing ==> SUM_IS_ZERO)
/* <A><B> is subtracted for every tau */
__CPROVER_ensures(C_SAME(__CPROVER_return_value, self->SubtractDisconnected ? op_sub_cplx_cplx(g_sum, DISCONNECTED(self)) : g_sum))
//@loop 1
__CPROVER_assigns(iter.pos, Value, g_sum, g_sum_re, g_sum_im, g_evals, self->parts.last_pos, self->parts.cur)
__CPROVER_loop_invariant(iter.l == &self->parts && 0 <= iter.pos && iter.pos <= (long)self->parts.n)
__CPROVER_loop_invariant(BITS(Value.re) == g_sum_re && BITS(Value.im) == g_sum_im && BITS(g_sum.re) == g_sum_re && BITS(g_sum.im) == g_sum_im)
__CPROVER_loop_invariant(g_evals == ((self->parts.gidx >= 0 && iter.pos > self->parts.gidx) ? 1 : 0))
__CPROVER_decreases((long)self->parts.n - iter.pos)
//@end


/* ================================================================================================================
 * subtractDisconnected (Susceptibility.h): three ways of supplying <A>, <B>; all of them set the same three members.
 * EnsembleAverage (C14 anchor EnsembleAverage.cpp, not under contract here) is a contract stub:
 *   EnsembleAverage(S,H,Op,DM): remembers its constituents;  prepare(): idempotent, sets result = <Op> (opaque oracle of the
 *   operator's ghost id) or throws exStatusMismatch when the operator is not prepared;  getResult(): the stored result. */
double __CPROVER_uninterpreted_average_re(long);
double __CPROVER_uninterpreted_average_im(long);
#define AVERAGE_OF(op) cplx_ctor2(__CPROVER_uninterpreted_average_re((op)->ghost_id), __CPROVER_uninterpreted_average_im((op)->ghost_id))
struct EnsembleAverage { struct StatesClassification *S; struct Hamiltonian *H; struct FieldOperator *A; struct DensityMatrix *DM; cplx result; int prepared; };
unsigned long g_ea_made;   /* EnsembleAverage objects constructed by subtractDisconnected() */
static inline struct EnsembleAverage EnsembleAverage_ctor4(struct StatesClassification *S, struct Hamiltonian *H, struct FieldOperator *A, struct DensityMatrix *DM)
{
  __CPROVER_assert(S == g_self->S && H == &g_self->H && DM == &g_self->DM, "C14: the averages are taken with the susceptibility's own S, H, DM");
  __CPROVER_assert(g_ea_made == 0 ? A == &g_self->A : A == &g_self->B, "C14: the first average is <A>, the second <B>");
  struct EnsembleAverage ea; ea.S = S; ea.H = H; ea.A = A; ea.DM = DM; ea.result = cplx_ctor1(0.0); ea.prepared = 0;
  g_ea_made++;
  return ea;
}
static inline void EnsembleAverage_prepare(struct EnsembleAverage *ea)
{
  if (ea->prepared) return;
  if (ea->A->Status < Prepared) { VERIF_THROW("exStatusMismatch"); return; }
  ea->result = AVERAGE_OF(ea->A); ea->prepared = 1;
}
static inline cplx EnsembleAverage_getResult(struct EnsembleAverage *ea) { return ea->result; }
/* C++ overload resolution on the argument type (the printer gives both two-argument overloads the same C name) */
#define Susceptibility_subtractDisconnected(self, a, b) \
  _Generic((a), cplx: Susceptibility_subtractDisconnected2c, default: Susceptibility_subtractDisconnected2e)((self), (a), (b))
//@maythrow EnsembleAverage_prepare Susceptibility_subtractDisconnected

//@function Pomerol::Susceptibility::subtractDisconnected(std::complex<double>, std::complex<double>) as Susceptibility_subtractDisconnected2c
//@contract
__CPROVER_requires(__CPROVER_is_fresh(self, sizeof(*self)))
__CPROVER_assigns(self->SubtractDisconnected, self->ave_A, self->ave_B)
__CPROVER_ensures(self->SubtractDisconnected && C_SAME(self->ave_A, ave_A) && C_SAME(self->ave_B, ave_B))
//@end

//@function Pomerol::Susceptibility::subtractDisconnected(Pomerol::EnsembleAverage&, Pomerol::EnsembleAverage&) as Susceptibility_subtractDisconnected2e
//@contract
__CPROVER_requires(__CPROVER_is_fresh(self, sizeof(*self)) && __CPROVER_is_fresh(EA_A, sizeof(*EA_A)) && __CPROVER_is_fresh(EA_B, sizeof(*EA_B)))
__CPROVER_requires(__CPROVER_is_fresh(EA_A->A, sizeof(struct FieldOperator)) && __CPROVER_is_fresh(EA_B->A, sizeof(struct FieldOperator)) && !VERIF_thrown)
__CPROVER_assigns(self->SubtractDisconnected, self->ave_A, self->ave_B, EA_A->result, EA_A->prepared, EA_B->result, EA_B->prepared, VERIF_thrown)
/* both averages are prepared (A first) and their results become ave_A, ave_B; an exception leaves the susceptibility unchanged */
__CPROVER_ensures(VERIF_thrown == ((!__CPROVER_old(EA_A->prepared) && EA_A->A->Status < Prepared) || (!__CPROVER_old(EA_B->prepared) && EA_B->A->Status < Prepared)))
__CPROVER_ensures(!VERIF_thrown ==> (EA_A->prepared && EA_B->prepared && self->SubtractDisconnected && C_SAME(self->ave_A, EA_A->result) && C_SAME(self->ave_B, EA_B->result)))
__CPROVER_ensures(VERIF_thrown ==> (!self->SubtractDisconnected == !__CPROVER_old(self->SubtractDisconnected) && C_SAME(self->ave_A, __CPROVER_old(self->ave_A)) && C_SAME(self->ave_B, __CPROVER_old(self->ave_B))))
//@end

//@function Pomerol::Susceptibility::subtractDisconnected() as Susceptibility_subtractDisconnected0
//@contract
__CPROVER_requires(__CPROVER_is_fresh(self, sizeof(*self)) && g_self == self && g_ea_made == 0 && !VERIF_thrown)
__CPROVER_assigns(self->SubtractDisconnected, self->ave_A, self->ave_B, g_ea_made, VERIF_thrown)
/* <A>, <B> of the susceptibility's own operators, computed with its own S, H, DM (monitor) */
__CPROVER_ensures(VERIF_thrown == (self->A.Status < Prepared || self->B.Status < Prepared))
__CPROVER_ensures(!VERIF_thrown ==> (self->SubtractDisconnected && C_SAME(self->ave_A, AVERAGE_OF(&self->A)) && C_SAME(self->ave_B, AVERAGE_OF(&self->B))))
__CPROVER_ensures(VERIF_thrown ==> (!self->SubtractDisconnected == !__CPROVER_old(self->SubtractDisconnected) && C_SAME(self->ave_A, __CPROVER_old(self->ave_A)) && C_SAME(self->ave_B, __CPROVER_old(self->ave_B))))
//@end

//@harness h_Susc_subtract_values enforce=Susceptibility_subtractDisconnected2c props=C14 min_obl=71 timeout=120 reach=1
void h_Susc_subtract_values(void) { struct Susceptibility *chi; cplx a, b; Susceptibility_subtractDisconnected2c(chi, a, b); REACH("exit"); }

//@harness h_Susc_subtract_EA enforce=Susceptibility_subtractDisconnected2e props=C14 min_obl=245 timeout=120 reach=2
void h_Susc_subtract_EA(void)
{
  struct Susceptibility *chi; struct EnsembleAverage *ea, *eb;
  Susceptibility_subtractDisconnected2e(chi, ea, eb);
  if (VERIF_thrown) REACH("thrown"); else REACH("exit");
}

//@harness h_Susc_subtract_own enforce=Susceptibility_subtractDisconnected0 props=C14 min_obl=246 timeout=120 reach=2
void h_Susc_subtract_own(void)
{
  struct Susceptibility *chi;
  Susceptibility_subtractDisconnected0(chi);
  if (VERIF_thrown) REACH("thrown"); else REACH("exit");
}

/* ---- constructor: establishes the state prepare() starts from (Status = Constructed, Vanishing, no parts), no subtraction,
 * beta of the density matrix, and stores each argument in the member of the same name. */
//@struct Pomerol::Thermal
//@tu src/pomerol/Thermal.cpp
//@global I
//@function Pomerol::Thermal::Thermal(double) as Thermal_ctor1x
//@end
/* the base-class initialiser `Thermal(DM.beta)` is printed as the in-place form Thermal_ctor1(base, beta) */
#define Thermal_ctor1(base_, beta_) Thermal_init1x((base_), (beta_))
//@tu src/pomerol/Susceptibility.cpp
/* TRUSTED: ComputableObject() sets Status = Constructed (ComputableObject.h); the base sub-object is flattened into the C struct,
 * so the model writes the member of the object under construction */
#define ComputableObject_ctor0(base_) ((void)(self->Status = Constructed))
static inline PartList PartList_ctor0(void) { PartList l; l.n = 0; l.last = 0; l.cur = 0; l.gidx = -1; l.last_pos = -1; return l; }
//@function Pomerol::Susceptibility::Susceptibility(Pomerol::StatesClassification const&, Pomerol::Hamiltonian const&, Pomerol::QuadraticOperator const&, Pomerol::QuadraticOperator const&, Pomerol::DensityMatrix const&) as Susceptibility_ctor5
//@contract
__CPROVER_requires(__CPROVER_is_fresh(self, sizeof(*self)) && __CPROVER_is_fresh(H, sizeof(*H)) && __CPROVER_is_fresh(A, sizeof(*A)) && __CPROVER_is_fresh(B, sizeof(*B)) && __CPROVER_is_fresh(DM, sizeof(*DM)))
__CPROVER_assigns(*self)
__CPROVER_ensures(self->Status == Constructed && self->Vanishing && self->parts.n == 0 && !self->SubtractDisconnected)
__CPROVER_ensures(BITS(self->ave_A.re) == 0 && BITS(self->ave_A.im) == 0 && BITS(self->ave_B.re) == 0 && BITS(self->ave_B.im) == 0)
__CPROVER_ensures(D_SAME(self->beta, DM->beta) && C_SAME(self->MatsubaraSpacing, op_div_cplx_double(op_mul_cplx_double(I, 3.14159265358979323846), DM->beta)))
__CPROVER_ensures(self->S == S && self->H.nblocks == H->nblocks && self->DM.nblocks == DM->nblocks && self->A.ghost_id == A->ghost_id && self->B.ghost_id == B->ghost_id)
//@end

//@harness h_Susc_ctor enforce=Susceptibility_init5 props=C14 min_obl=275 timeout=120 reach=1
void h_Susc_ctor(void)
{
  struct Susceptibility *chi; struct StatesClassification *S; struct Hamiltonian *H; struct FieldOperator *A, *B; struct DensityMatrix *DM;
  Susceptibility_init5(chi, S, H, A, B, DM);
  REACH("exit");
}

/* ---- copy constructor (Susceptibility.h "Copy-constructor. \param[in] Chi Susceptibility object to be copied."; a copy is an
 * independent object in the same state): every scalar member equals the source's -- Status, Vanishing, SubtractDisconnected, ave_A,
 * ave_B (each its own post-condition), beta, MatsubaraSpacing (given the Thermal invariant I*pi/beta of the source) --, the references
 * refer to the same objects, and the parts are deep-copied: one `new SusceptibilityPart(**iter)` per source part, in order, each
 * appended to the copy's own list (monitor + ghost position of the SOURCE list: copied exactly once).
 * TRUSTED: the implicit copy constructor of ComputableObject copies Status (its only member); the model asserts that the object
 * handed to it is the source.  Handles of the copied parts: &g_copy_parts[0] + ordinal.  The copy of ONE part is opaque. */
struct SusceptibilityPart g_copy_parts[1];
long g_copies;                    /* copies made of the source part at the ghost position */
#define ComputableObject_ctor1(base_, src_) ({ \
  __CPROVER_assert((void *)(src_) == (void *)Chi, "ComputableObject(const ComputableObject&): the object copied is the source Chi"); \
  (void)(self->Status = Chi->Status); })
static inline struct SusceptibilityPart *SuscPart_copy_monitor(PartList *src, struct SusceptibilityPart *from)
{
  long k = src->last_pos;
  __CPROVER_assert(0 <= k && k < (long)src->n && from == PART_AT(k), "C14 copy: the part copied is the source-list element the iterator is on");
  __CPROVER_assert((unsigned long)k == g_n_new, "C14 copy: one new part per source part, in order");
  if (k == src->gidx) g_copies++;
  g_last_new = &g_copy_parts[0] + g_n_new;
  g_n_new++;
  REACH("copy_part");
  return g_last_new;
}
#define SusceptibilityPart_new1(from_) SuscPart_copy_monitor(&Chi->parts, (from_))
//@function Pomerol::Susceptibility::Susceptibility(Pomerol::Susceptibility const&) as Susceptibility_ctor1
//@contract
__CPROVER_requires(__CPROVER_is_fresh(self, sizeof(*self)) && __CPROVER_is_fresh(Chi, sizeof(*Chi)))
__CPROVER_requires(PartList_wf(&Chi->parts))
__CPROVER_requires(C_SAME(Chi->MatsubaraSpacing, op_div_cplx_double(op_mul_cplx_double(I, 3.14159265358979323846), Chi->beta)))
__CPROVER_requires(g_n_new == 0 && g_copies == 0)
__CPROVER_assigns(*self, Chi->parts.last_pos, Chi->parts.cur, g_n_new, g_last_new, g_copies)
__CPROVER_ensures(self->Status == Chi->Status)
__CPROVER_ensures(!self->Vanishing == !Chi->Vanishing && !self->SubtractDisconnected == !Chi->SubtractDisconnected)
__CPROVER_ensures(C_SAME(self->ave_A, Chi->ave_A))
__CPROVER_ensures(C_SAME(self->ave_B, Chi->ave_B))
__CPROVER_ensures(D_SAME(self->beta, Chi->beta) && C_SAME(self->MatsubaraSpacing, Chi->MatsubaraSpacing))
__CPROVER_ensures(self->S == Chi->S && self->H.nblocks == Chi->H.nblocks && self->DM.nblocks == Chi->DM.nblocks && D_SAME(self->DM.beta, Chi->DM.beta))
__CPROVER_ensures(self->A.ghost_id == Chi->A.ghost_id && self->B.ghost_id == Chi->B.ghost_id && self->A.Status == Chi->A.Status && self->B.Status == Chi->B.Status)
__CPROVER_ensures(self->A.LeftRightBlocks.left.e == Chi->A.LeftRightBlocks.left.e && self->B.LeftRightBlocks.right.e == Chi->B.LeftRightBlocks.right.e)
/* deep copy of the parts: as many as the source has, all new (the last one stored is the last one created), the source part at the
 * ghost position copied exactly once; source list unchanged */
__CPROVER_ensures(self->parts.n == Chi->parts.n && g_n_new == Chi->parts.n && Chi->parts.n == __CPROVER_old(Chi->parts.n))
__CPROVER_ensures(self->parts.n > 0 ==> self->parts.last == &g_copy_parts[0] + (self->parts.n - 1))
__CPROVER_ensures(g_copies == (Chi->parts.gidx >= 0 ? 1 : 0))
//@loop 1
__CPROVER_assigns(iter.pos, self->parts.n, self->parts.last, Chi->parts.last_pos, Chi->parts.cur, g_n_new, g_last_new, g_copies)
__CPROVER_loop_invariant(iter.l == &Chi->parts && 0 <= iter.pos && iter.pos <= (long)Chi->parts.n)
__CPROVER_loop_invariant(self->parts.n == (unsigned long)iter.pos && g_n_new == (unsigned long)iter.pos)
__CPROVER_loop_invariant(iter.pos > 0 ==> self->parts.last == &g_copy_parts[0] + (iter.pos - 1))
__CPROVER_loop_invariant(g_copies == ((Chi->parts.gidx >= 0 && iter.pos > Chi->parts.gidx) ? 1 : 0))
__CPROVER_decreases((long)Chi->parts.n - iter.pos)
//@end

//@harness h_Susc_copy enforce=Susceptibility_init1 props=C14,C17 min_obl=838 timeout=120 reach=2
void h_Susc_copy(void)
{
  struct Susceptibility *chi, *src;
  Susceptibility_init1(chi, src);
  REACH("exit");
}

//@harness h_Susc_call_z enforce=Susceptibility_call_z props=C14 min_obl=491 timeout=120 reach=2
void h_Susc_call_z(void) { struct Susceptibility *chi; cplx z; Susceptibility_call_z(chi, z); REACH("exit"); }

//@harness h_Susc_call_n enforce=Susceptibility_call_n props=C14 min_obl=507 timeout=120 reach=2
void h_Susc_call_n(void) { struct Susceptibility *chi; long n; Susceptibility_call_n(chi, n); REACH("exit"); }

//@harness h_Susc_of_tau enforce=Susceptibility_of_tau props=C14 min_obl=474 timeout=120 reach=2
void h_Susc_of_tau(void) { struct Susceptibility *chi; double tau; Susceptibility_of_tau(chi, tau); REACH("exit"); }

/* =====================================================================================================================
 * WHAT IS PROVED (for all inputs satisfying the stated type invariants), WHAT IS NOT
 *
 * h_Susc_prepare (Susceptibility::prepare, C14 + C19), bimap model stubs/bimap.h (assumptions B1-B3 there):
 *   safety (iterators dereferenced / incremented only before end(); block numbers handed to H.getPart / DM.getPart / DM.isRetained
 *     inside parts[]; getPartFromLeftIndex / getPartFromRightIndex called with an existing left / right block), termination;
 *   Status >= Prepared on entry: nothing changes;  an operator that is not prepared: exStatusMismatch, nothing created;
 *   soundness (monitor of `new SusceptibilityPart(...)`, every call): the iterators are on relations <l|A|r> and <r|B|l>; l or r is
 *     retained; arguments = (part of A with left block l, part of B with right block l, H(r), H(l), DM(r), DM(l)), i.e. inner = r,
 *     outer = l as documented in SusceptibilityPart.h; the created part is what is pushed;
 *   completeness + uniqueness + C19 (ghost pair = ONE arbitrary relation of A.left and ONE of B.right): exactly one part iff the pair
 *     matches and (retained(l) || retained(r)) -- a part is skipped only when both blocks of its stripe are discarded; no part for a
 *     non-matching pair;  number of list elements = number of parts created;  Vanishing <=> no part;  Status = Prepared.
 *   retained() is an opaque oracle of the block number.  Part handles are opaque (never dereferenced).
 * h_Susc_ctor: Status = Constructed, Vanishing, no parts, no subtraction, averages +0, beta / MatsubaraSpacing = I*pi/beta of DM
 *   (Thermal::Thermal(double) extracted), arguments stored in the members of the same name.
 * h_Susc_call_z / h_Susc_call_n / h_Susc_of_tau: result = S [ - (ave_A*ave_B)*beta iff SubtractDisconnected and |z| < 1e-15 ]
 *   resp. S [ - ave_A*ave_B iff SubtractDisconnected ] where S is a MODEL: 0, then S := S + part_k(arg) at every evaluation of a part
 *   (monitor; the accumulator is bit-equal to the model at every loop head).  The model does not depend on SubtractDisconnected /
 *   ave_A / ave_B, so "value with subtraction - value without" is exactly the bracket.  Every part is evaluated at the function's own
 *   argument (for operator()(long n): z = MatsubaraSpacing*(double)(2n), |n| < 2^62 LIMIT); an arbitrary part (ghost position) is
 *   evaluated exactly once, none if Vanishing.  The value of one part is an opaque function (contracts in suscpart.c).
 * h_Susc_subtract_values / _EA / _own: all three overloads set SubtractDisconnected and (ave_A, ave_B) = the given values / the results
 *   of the two EnsembleAverage objects after prepare() (A first) / <A>, <B> of the susceptibility's own operators with its own S, H, DM;
 *   if an average cannot be prepared (operator not prepared) the exception leaves the three members unchanged.
 *   EnsembleAverage is a contract stub (TRUSTED: prepare() idempotent, result = opaque <Op>); EnsembleAverage.cpp is not under contract here.
 * h_Susc_copy (copy constructor): Status, Vanishing, SubtractDisconnected, ave_A, ave_B, beta, MatsubaraSpacing of the copy = the source's;
 *   same S, H, A, B, DM; one `new SusceptibilityPart(*source part)` per source part, in order, appended to the copy's own list; ghost position
 *   of the source list copied exactly once; sizes equal.  TRUSTED: implicit ComputableObject copy copies Status; the copy of ONE part is opaque.
 * h_Susc_compute (Susceptibility::compute, prepare() through its CONTRACT): already computed: nothing happens (so a second call does nothing);
 *   not prepared: prepare() first (exStatusMismatch of prepare: nothing computed, status unchanged); then SusceptibilityPart::compute() on
 *   every list element exactly once, in order (monitor + ghost position; number of calls = number of parts); Status = Computed.
 * h_Susc_isVanishing: returns the flag (which prepare() proves to be "no part").
 * Susceptibility has no getIndex(); SusceptibilityPart has no getters.
 * NOT covered: destructor.
 *
 * MUTANTS (scratch copy of /repo, re-extracted; obligation that failed)
 *   prepare: drop `|| isRetained(Aright)`   -> Susceptibility_prepare.loop_invariant_step.5 (ghost pair not created)
 *            H.getPart(Aleft),H.getPart(Aright) swapped -> SusceptibilityPart_new6.assertion.6 (inner = r, outer = l)
 *            `<=` -> `<` in the A advance      -> loop_invariant_step.4/.5 (equivalent walk, but not the lock-step one the invariant describes)
 *            match test without Aright == Bleft -> SusceptibilityPart_new6.assertion.2
 *            parts.size() > 1                  -> Susceptibility_prepare.postcondition.6 (Vanishing <=> no part)
 *            B.getPartFromLeftIndex(Bleft)     -> FieldOperator_getPartFromLeftIndex.assertion.1, SusceptibilityPart_new6.assertion.5
 *   ctor:    Vanishing(false) -> postcondition.1;  A(B),B(A) -> postcondition.4
 *   copy:    ave_B(Chi.ave_A) -> Susceptibility_init1.postcondition.4;  ComputableObject() -> postcondition.1;  SubtractDisconnected(false) -> postcondition.2
 *            A(Chi.B),B(Chi.A) -> postcondition.7/.8;  parts.push_back(*iter) (shallow) -> PartList_push_back.assertion.1
 *   call_z:  subtraction at every z -> postcondition.3;  `-=` -> `+=` -> postcondition.3;  if(Vanishing) -> postcondition.1/.2
 *   call_n:  2n+1 -> SusceptibilityPart_call.assertion.2 (every part is evaluated at z), postcondition.2
 *   of_tau:  extra *beta -> postcondition.3;  `Value -= part` -> accumulator != model (loop invariant)
 *   compute: Status = Prepared at the end -> Susceptibility_compute.postcondition.6;   first part skipped -> loop invariants (wrapped_for_contract_checking.6/.7)
 *            early return for Status >= Prepared -> postcondition.6;   prepare() never called -> postcondition.3/.4
 *            (`Status<=Prepared` before prepare() and `Status>Computed` in the early return survive: both are equivalent -- prepare() on a prepared
 *             object does nothing, and for Status == Computed the part loop is guarded by `Status<Computed`)
 *   isVanishing: !Vanishing -> postcondition.1;   parts.size()==0 -> postcondition.1 (not the flag)
 *   subtract: ave_A = ave_B -> 2c.postcondition.1;  results swapped -> 2e.postcondition.2;  EA_B built from A -> EnsembleAverage_ctor4.assertion.2, 0.postcondition.1/.2
 */
