/* StatesClassification: the remaining read accessors (C07), and Symmetrizer::getOperations.
 *   getNumberOfStates, NumberOfBlocks, getBlockSize(BlockNumber), getQuantumNumbers(BlockNumber), getQuantumNumbers(FockState)
 * "consistent with the tables compute() builds": each accessor is specified against the members compute() fills
 * (StateSize, StatesContainer, StateBlockIndex, BlockToQuantum); documented exceptions: exStatusMismatch before compute(),
 * exWrongState for an unknown block / state.  Mutation record at the end. */
#include "../stubs/common.h"
#include "../stubs/bitset.h"
//@include types_common.inc
//@type (boost::)?dynamic_bitset<(unsigned long, std::allocator<unsigned long> ?)?>|(boost::)?dynamic_bitset<Block, Allocator>|(Pomerol::)?FockState => Bitset val
//@record Pomerol::BlockNumber => BlockNumber val
//@record Pomerol::Symmetrizer::QuantumNumbers => QN val
//@type std::vector<(Pomerol::)?BlockNumber.*> => VecBN ptr
//@type std::vector<std::vector<(Pomerol::)?FockState.*|std::vector<std::vector<boost::dynamic_bitset<.*> => VecVecFS ptr
//@type std::vector<(Pomerol::)?FockState>|std::vector<boost::dynamic_bitset<[^:]*>(, std::allocator<boost::dynamic_bitset<[^:]*> ?>)?> => VecFS ptr
//@type std::map<(Pomerol::)?BlockNumber, (Pomerol::)?(Symmetrizer::)?QuantumNumbers.*>::(const_)?iterator|std::_Rb_tree_(const_)?iterator<std::pair<const Pomerol::BlockNumber, Pomerol::Symmetrizer::QuantumNumbers> ?> => MapBQIt val
//@type std::map<(Pomerol::)?BlockNumber, (Pomerol::)?(Symmetrizer::)?QuantumNumbers.*> => MapBQ ptr
//@tu src/pomerol/StatesClassification.cpp
//@enum ComputableObject::
typedef struct BlockNumber BlockNumber;
//@struct Pomerol::BlockNumber
//@function Pomerol::BlockNumber::operator<(Pomerol::BlockNumber const&) const as BlockNumber_lt
//@end
static inline BlockNumber BlockNumber_ctor1(int n) { BlockNumber b; b.number = n; return b; }
//@function Pomerol::BlockNumber::operator int() const as BlockNumber_conv_int
//@end

/* ---- containers: one-element ghost views, as in specs/states.c */
#define VEC_MAXLEN (1UL << 30)
typedef struct VecBN { unsigned long size; unsigned long gidx; BlockNumber gval; BlockNumber scratch; } VecBN;
static inline BlockNumber *VecBN_at(VecBN *v, unsigned long i)
{
  __CPROVER_assert(i < v->size, "vector<BlockNumber>::operator[]: index < size()");
  if (i == v->gidx) return &v->gval;
  v->scratch.number = nondet_int();
  return &v->scratch;
}
typedef struct VecFS { unsigned long size; } VecFS;
static inline unsigned long VecFS_size(VecFS *v) { return v->size; }
/* StatesContainer: number of blocks, and the size of ONE ghost block */
typedef struct VecVecFS { unsigned long size; unsigned long gblock; VecFS gvec; VecFS scratch; } VecVecFS;
static inline unsigned long VecVecFS_size(VecVecFS *v) { return v->size; }
static inline VecFS *VecVecFS_at(VecVecFS *v, unsigned long i)
{
  __CPROVER_assert(i < v->size, "vector<vector<FockState>>::operator[]: index < size()");
  if (i == v->gblock) return &v->gvec;
  v->scratch.size = nondet_ulong();
  return &v->scratch;
}
/* Symmetrizer::QuantumNumbers: an opaque value (identity = its hash, the only thing pomerol compares) */
typedef struct QN { unsigned long hash; int amount; } QN;
/* std::map<BlockNumber, QuantumNumbers> BlockToQuantum: GHOST-KEY model keyed by the EXTRACTED BlockNumber::operator<.
 * ASSUMED (std::map): count/find locate the entry whose key is equivalent to the argument under the comparator. */
typedef struct MapBQEntry { BlockNumber first; QN second; } MapBQEntry;
typedef struct MapBQ { BlockNumber gkey; int gpresent; MapBQEntry g; MapBQEntry other; } MapBQ;
typedef struct MapBQIt { MapBQ *m; int pos; /* 0 = end(), 1 = ghost entry, 2 = another entry */ } MapBQIt;
static inline _Bool bn_equiv(BlockNumber a, BlockNumber b) { return !BlockNumber_lt(&a, b) && !BlockNumber_lt(&b, a); }
int g_other_present;       /* whether a key that is not the ghost key is present: arbitrary but the same for count() and find() of one call */
static inline unsigned long MapBQ_count(MapBQ *m, BlockNumber k)
{ return bn_equiv(k, m->gkey) ? (m->gpresent ? 1UL : 0UL) : (g_other_present ? 1UL : 0UL); }
static inline MapBQIt MapBQ_find_fn(MapBQ *m, BlockNumber k)
{
  MapBQIt it; it.m = m;
  /* an exception thrown while the ARGUMENT was evaluated (getBlockNumber(in) in getQuantumNumbers(FockState)) is in flight: in C++ find()
   * is not reached; the printed C evaluates the rest of the expression, whose value is then discarded */
  if (VERIF_thrown) { it.pos = 2; return it; }
  if (bn_equiv(k, m->gkey)) it.pos = m->gpresent ? 1 : 0;
  else { it.pos = g_other_present ? 2 : 0; if (it.pos) { m->other.first = k; m->other.second.hash = nondet_ulong(); m->other.second.amount = nondet_int(); } }
  return it;
}
#define MapBQ_find(m_, k_) (((MapBQIt[1]){ MapBQ_find_fn((m_), (k_)) })[0])
static inline MapBQEntry *MapBQIt_arrow(MapBQIt *it)
{
  __CPROVER_assert(it->pos != 0, "std::map iterator dereferenced: not end()");
  return it->pos == 1 ? &it->m->g : &it->m->other;
}
//@struct Pomerol::StatesClassification only=Status,StateSize,IndexSize,StatesContainer,StateBlockIndex,BlockToQuantum
#define SBI (&self->StateBlockIndex)
#define SCN (&self->StatesContainer)
#define BQ (&self->BlockToQuantum)
//@maythrow SC_getFockStates SC_getBlockNumber_f
//@rename StatesClassification_getFockStates => SC_getFockStates
//@rename StatesClassification_getBlockNumber => SC_getBlockNumber_f
/* (under contract in specs/states.c; inlined here) */
//@function Pomerol::StatesClassification::getFockStates(Pomerol::BlockNumber) const as SC_getFockStates
//@end
//@function Pomerol::StatesClassification::getBlockNumber(boost::dynamic_bitset<unsigned long, std::allocator<unsigned long> >) const as SC_getBlockNumber_f
//@end

/* "get total number of Quantum States ( 2^IndexInfo.size() )": the StateSize compute() stored (= 1 << IndexSize, h_SC_compute) */
//@function Pomerol::StatesClassification::getNumberOfStates() const as SC_getNumberOfStates
//@contract
__CPROVER_requires(__CPROVER_is_fresh(self, sizeof(*self)))
__CPROVER_assigns()
__CPROVER_ensures(__CPROVER_return_value == self->StateSize)
//@end
//@harness h_getNumberOfStates enforce=SC_getNumberOfStates props=C07 reach=1 timeout=60 min_obl=33
void h_getNumberOfStates(void)
{
  struct StatesClassification *p;
  unsigned long n = SC_getNumberOfStates(p);
  REACH("exit");
}

/* NumberOfBlocks(): the number of blocks compute() created = StatesContainer.size().  TYPE INVARIANT: at most 2^30 blocks
 * (one per state at most, IndexSize <= 30), so the conversion to BlockNumber(int) is exact. */
//@function Pomerol::StatesClassification::NumberOfBlocks() const as SC_NumberOfBlocks
//@contract
__CPROVER_requires(__CPROVER_is_fresh(self, sizeof(*self)) && SCN->size <= VEC_MAXLEN)
__CPROVER_assigns()
__CPROVER_ensures(__CPROVER_return_value.number >= 0 && (unsigned long)__CPROVER_return_value.number == SCN->size)
//@end
//@harness h_NumberOfBlocks enforce=SC_NumberOfBlocks props=C07 reach=1 timeout=60 min_obl=35
void h_NumberOfBlocks(void)
{
  struct StatesClassification *p;
  BlockNumber n = SC_NumberOfBlocks(p);
  REACH("exit");
}

/* getBlockSize(in): number of states of block `in` (ghost block: its size); exStatusMismatch before compute().
 * `in` must be a block: getFockStates(BlockNumber) does not test it (pre-condition, as in specs/states.c). */
//@function Pomerol::StatesClassification::getBlockSize(Pomerol::BlockNumber) const as SC_getBlockSize
//@contract
__CPROVER_requires(__CPROVER_is_fresh(self, sizeof(*self)) && !VERIF_thrown)
__CPROVER_requires(self->Status >= Computed ==> (in.number >= 0 && (unsigned long)in.number < SCN->size))
__CPROVER_assigns(VERIF_thrown, self->StatesContainer.scratch)
__CPROVER_ensures(VERIF_thrown == (self->Status < Computed))
__CPROVER_ensures((!VERIF_thrown && (unsigned long)in.number == SCN->gblock) ==> __CPROVER_return_value == SCN->gvec.size)
//@end
//@harness h_getBlockSize enforce=SC_getBlockSize props=C07,C17 reach=3 timeout=60 min_obl=100
void h_getBlockSize(void)
{
  struct StatesClassification *p; BlockNumber b;
  VERIF_thrown = 0;
  unsigned long n = SC_getBlockSize(p, b);
  REACH("exit");
  if (VERIF_thrown) REACH("rejected"); else REACH("accepted");
}

/* getQuantumNumbers(BlockNumber in): the quantum numbers compute() recorded for block `in` in BlockToQuantum;
 * exStatusMismatch before compute(), exWrongState for a number that is not a recorded block.  (g: the ghost key of the map) */
//@function Pomerol::StatesClassification::getQuantumNumbers(Pomerol::BlockNumber) const as SC_getQuantumNumbers_b
//@contract
__CPROVER_requires(__CPROVER_is_fresh(self, sizeof(*self)) && !VERIF_thrown && (BQ->gpresent == 0 || BQ->gpresent == 1))
__CPROVER_requires(BQ->gpresent ==> BQ->g.first.number == BQ->gkey.number)
__CPROVER_assigns(VERIF_thrown, self->BlockToQuantum.other)
__CPROVER_ensures(self->Status < Computed ==> VERIF_thrown)
__CPROVER_ensures((self->Status >= Computed && in.number == BQ->gkey.number) ==> (VERIF_thrown == !BQ->gpresent))
__CPROVER_ensures((self->Status >= Computed && in.number != BQ->gkey.number) ==> (VERIF_thrown == !g_other_present))
__CPROVER_ensures((!VERIF_thrown && in.number == BQ->gkey.number) ==> (__CPROVER_return_value.hash == BQ->g.second.hash && __CPROVER_return_value.amount == BQ->g.second.amount))
//@end
//@harness h_getQuantumNumbers_b enforce=SC_getQuantumNumbers_b props=C07 reach=3 timeout=60 min_obl=172
void h_getQuantumNumbers_b(void)
{
  struct StatesClassification *p; BlockNumber b;
  VERIF_thrown = 0; g_other_present = nondet_bool();
  QN q = SC_getQuantumNumbers_b(p, b);
  REACH("exit");
  if (VERIF_thrown) REACH("rejected"); else REACH("accepted");
}

/* getQuantumNumbers(FockState in) = the quantum numbers of the block of `in`.
 * REPRESENTATION INVARIANT (tables built by compute(): BlockToQuantum.insert(block_index, QNumbers) for every block created, and
 * StateBlockIndex[s] is one of these blocks): the block number of every state is a key of BlockToQuantum -- stated at the ghost
 * state.  Exceptions are those of getBlockNumber(FockState): not computed, or a label >= StateSize. */
//@function Pomerol::StatesClassification::getQuantumNumbers(boost::dynamic_bitset<unsigned long, std::allocator<unsigned long> >) const as SC_getQuantumNumbers_f
//@contract
__CPROVER_requires(__CPROVER_is_fresh(self, sizeof(*self)) && !VERIF_thrown && Bitset_wf(in) && SBI->size == self->StateSize)
__CPROVER_requires((self->Status >= Computed && in.w < self->StateSize) ==>
                   (SBI->gidx == in.w && BQ->gkey.number == SBI->gval.number && BQ->gpresent == 1 && BQ->g.first.number == BQ->gkey.number))
__CPROVER_assigns(VERIF_thrown, self->StateBlockIndex.scratch, self->BlockToQuantum.other)
__CPROVER_ensures(VERIF_thrown == (self->Status < Computed || in.w >= self->StateSize))
__CPROVER_ensures(!VERIF_thrown ==> (__CPROVER_return_value.hash == BQ->g.second.hash && __CPROVER_return_value.amount == BQ->g.second.amount))
//@end
//@harness h_getQuantumNumbers_f enforce=SC_getQuantumNumbers_f props=C07,C17 reach=3 timeout=60 min_obl=209
void h_getQuantumNumbers_f(void)
{
  struct StatesClassification *p; Bitset s;
  VERIF_thrown = 0; g_other_present = nondet_bool();
  QN q = SC_getQuantumNumbers_f(p, s);
  REACH("exit");
  if (VERIF_thrown) REACH("rejected"); else REACH("accepted");
}

/* ---- Symmetrizer::getOperations(): "Get a vector of operators that commute with the Hamiltonian" = the member checkSymmetry
 * appends to (specs/symm.c: an operator is appended iff it passes the acceptance test).  No status test, no copy. */
//@type boost::shared_ptr<(Pomerol::)?Operator> => OpPtr val
//@type std::vector<boost::shared_ptr<(Pomerol::)?Operator>.*> => VecOpPtr ptr
struct Operator;
typedef struct OpPtr { struct Operator *p; } OpPtr;
typedef struct VecOpPtr { unsigned long size; unsigned long last_id; } VecOpPtr;
//@tu src/pomerol/Symmetrizer.cpp
//@struct Pomerol::Symmetrizer only=Status,IndexSize,NSymmetries,Operations
//@function Pomerol::Symmetrizer::getOperations() const as Symmetrizer_getOperations
//@contract
__CPROVER_requires(__CPROVER_is_fresh(self, sizeof(*self)))
__CPROVER_assigns()
__CPROVER_ensures(__CPROVER_return_value == &self->Operations)
//@end
//@harness h_getOperations enforce=Symmetrizer_getOperations props=C07 reach=1 timeout=60 min_obl=22
void h_getOperations(void)
{
  struct Symmetrizer *s;
  VecOpPtr *v = Symmetrizer_getOperations(s);
  REACH("exit");
}

/* ======================= REMARKS =======================
 * 1. "consistent with the tables compute() builds": the accessors are specified against the members; that compute() fills StateSize,
 *    StatesContainer and StateBlockIndex consistently is h_SC_compute (specs/states.c) / h_SC_compute_qn (specs/qnumbers.c).  That compute()
 *    records in BlockToQuantum, for every block it creates, the quantum numbers under which QuantumToBlock stores that block (the
 *    representation invariant used by getQuantumNumbers(FockState)) is NOT proved here: BlockToQuantum.insert is an unmonitored stub there.
 * 2. getQuantumNumbers(FockState) dereferences BlockToQuantum.find(...) without a test: with the invariant of remark 1 violated it
 *    dereferences end() (obligation MapBQIt_arrow.assertion.1).
 * 3. Symmetrizer::IndexPermutation (constructor, checkConsistency, checkIrreducibility, calculateCycleLength, getIndices, getCycleLength)
 *    and Symmetrizer::generateTrivialCombination are NOT reachable from Symmetrizer::compute(bool) / compute(vector) / checkSymmetry nor from
 *    any other library code (the member list `Permutations` is never filled; the only user is test/IndexPermutationTest.cpp): dead code
 *    with respect to C07, not under contract.
 *
 * ======================= MUTATION RECORD (tools/try_mutant.py; killed unless noted) =======================
 * getNumberOfStates: `return StateSize-1`                                  SC_getNumberOfStates.postcondition.1
 * NumberOfBlocks: `StatesContainer.size()-1`                               SC_NumberOfBlocks.postcondition.1
 * NumberOfBlocks: `StateBlockIndex.size()`                                 VecBN_size "undefined function should be unreachable" (no model: not a semantic kill)
 * getBlockSize: `.size()+1`                                                SC_getBlockSize.postcondition.2
 * getBlockSize: own Status test removed                                    EQUIVALENT in C++ (getFockStates throws the same exception); fails here only
 *                                                                          through the default pointer of the printed exception path (VecFS_size.pointer_dereference)
 * getQuantumNumbers(BlockNumber): `if (!BlockToQuantum.count(in))`         SC_getQuantumNumbers_b.postcondition.2/.3/.4, MapBQIt_arrow.assertion.1
 * getQuantumNumbers(BlockNumber): `find(0)` instead of `find(in)`          SC_getQuantumNumbers_b.postcondition.4, MapBQIt_arrow.assertion.1
 * getQuantumNumbers(FockState): `find(0)`                                  SC_getQuantumNumbers_f.postcondition.1/.2, MapBQIt_arrow.assertion.1
 * getQuantumNumbers(FockState): block of FockState(IndexSize,0)            SC_getQuantumNumbers_f.postcondition.1/.2
 * getOperations: returning another (static, empty) vector                  UNDECIDED (the mutant needs a constructor the stubs do not model) -- no type-correct
 *                                                                          one-token mutant of `return Operations;` exists (the class has no second member of that type)
 */
