/* Density matrix: Gibbs weights and block truncation (C09, C19).
 *   DensityMatrixPart::truncate / isRetained, DensityMatrix::truncateBlocks / isRetained          (C19, default arithmetic)
 *   DensityMatrixPart::computeUnnormalized / normalize, DensityMatrix::compute                   (C09, bit-precise floats,
 *                                                              '*' and '/' through stubs/fp_axiom.h, exp = contract stub)
 * What is / is not proved and the mutants: comment at the end of the file. */
#include "../stubs/common.h"
#ifdef VERIF_FP_AXIOM
#include "../stubs/fp_axiom.h"
#endif
#include "../stubs/cplx.h"
#include "../stubs/sparse.h"
#include "../stubs/dense.h"
//@include types_common.inc
//@type (Pomerol::)?RealVectorType|Eigen::Matrix<double, -1, 1(, 0)?(, -1, 1)?> => RealVector ptr
//@type std::vector<(Pomerol::)?DensityMatrixPart \*(, std::allocator<.*>)?> => PartVec ptr
//@type std::vector<(Pomerol::)?DensityMatrixPart \*(, std::allocator<.*>)?>::(const_)?iterator|__gnu_cxx::__normal_iterator<(Pomerol::)?DensityMatrixPart \*(const)? ?\*, .*> => PartVecIt val
//@record Pomerol::BlockNumber => BlockNumber val
//@tu src/pomerol/DensityMatrixPart.cpp
//@enum ComputableObject::
//@struct Pomerol::HamiltonianPart only=Eigenvalues,Status
//@struct Pomerol::DensityMatrixPart embed=hpart skip=S

struct DensityMatrixPart *g_self;   /* the part under verification (for the stubs) */
long g_q;                           /* ghost: ONE arbitrary state of the block (or -1) */
long g_gs;                          /* ghost: position of the ground state inside this block, -1 if it is in another block */
long g_last_read;                   /* position of the weight read last */
_Bool g_q_above;                    /* ghost: weight(g_q) > Tolerance */

/* ---- exp (libm), contract only (DESIGN 3.2).  ASSERTED: the argument is a number <= 0 (so exp cannot overflow).
 * ASSUMED: exp(x) >= 0;  x <= 0 ==> exp(x) <= 1;  exp(+-0) = 1.  Monotonicity is NOT assumed. */
double __CPROVER_uninterpreted_exp(double);
#ifdef VERIF_FP_IEEE
static double exp(double x)
{
  __CPROVER_assert(x == x, "C09: the exponent is not NaN");
  __CPROVER_assert(x <= 0.0, "C09: the exponent -beta*(E - E_ground) is <= 0: weights cannot overflow");
  double r = __CPROVER_uninterpreted_exp(x);
  __CPROVER_assume(r >= 0.0);
  __CPROVER_assume(!(x <= 0.0) || r <= 1.0);
  __CPROVER_assume(!(x == 0.0) || r == 1.0);
  return r;
}
#else
static double exp(double x) { return __CPROVER_uninterpreted_exp(x); }
#endif

/* ---- HamiltonianPart::getEigenValue is extracted; the coefficient read inside it goes through Eigenvalues_at, which adds
 * the TYPE INVARIANT of a diagonalised Hamiltonian (point-wise, at the coefficient that is read):
 * ASSUMED (post-conditions of C03: HamiltonianPart::compute / Hamiltonian::computeGroundEnergy + the Eigen solver contract):
 *   every eigenvalue is finite and >= GroundEnergy (GroundEnergy = minimum over all blocks). */
static inline double *Eigenvalues_at(RealVector *v, long i)
{
  double *p = RealVector_call(v, i);
#ifdef VERIF_FP_IEEE
  __CPROVER_assume(d_finite(*p) && *p >= g_self->GroundEnergy);
#endif
  return p;
}
//@tu src/pomerol/HamiltonianPart.cpp
//@maythrow HamiltonianPart_getEigenValue
//@rename RealVector_call => Eigenvalues_at
/* twins for the other spelling of an increment (`++it` for `it++` and vice versa): same effect.  X_inc yields the iterator after the step
 * (exact); X_postinc made from X_inc is void, so a use of its value does not compile (UNDECIDED) instead of being modelled wrongly */
#define PartVecIt_inc(it_) (PartVecIt_postinc(it_), (it_))      /* pre-increment: the iterator itself, after the step */
//@function Pomerol::HamiltonianPart::getEigenValue(unsigned long) const as HamiltonianPart_getEigenValue
//@end
//@rename RealVector_call => RealVector_call
//@tu src/pomerol/DensityMatrixPart.cpp

/* =========================================================== DensityMatrixPart::truncate  (C19)
 * "Truncates this part if it does not include any states having larger weight than Tolerance":
 *   retained  <==>  some weight > Tolerance.
 *   "<==": for an ARBITRARY state g_q: weight(g_q) > Tolerance ==> retained.
 *   "==>": retained ==> the weight read last is > Tolerance (witness).          Weights are not modified.
 * With Tolerance = 0 and weights >= 0 (C09) a block is dropped only if all its weights are exactly 0. */
static inline double *weights_at(RealVector *v, long i) { g_last_read = i; return RealVector_call(v, i); }
//@rename RealVector_call => weights_at
//@function Pomerol::DensityMatrixPart::truncate(double) as DensityMatrixPart_truncate
//@contract
__CPROVER_requires(__CPROVER_is_fresh(self, sizeof(*self)) && g_self == self)
__CPROVER_requires(RealVector_wf(&self->weights, SP_MAX) && g_q >= -1 && g_q < self->weights.size && g_last_read == -1)
/* g_q_above: value of `weight(g_q) > Tolerance` (calls are not allowed in loop invariants; the weights are not written) */
__CPROVER_requires(g_q_above == (g_q >= 0 && D_GT(self->weights.data[g_q], Tolerance)))
__CPROVER_assigns(self->retained, g_last_read)
__CPROVER_ensures((g_q >= 0 && D_GT(self->weights.data[g_q], Tolerance)) ==> self->retained)
__CPROVER_ensures(self->retained ==> (0 <= g_last_read && g_last_read < self->weights.size && D_GT(self->weights.data[g_last_read], Tolerance)))
//@loop 1
__CPROVER_assigns(s, self->retained, g_last_read)
__CPROVER_loop_invariant(s <= partSize && partSize == (unsigned long)self->weights.size && !self->retained)
__CPROVER_loop_invariant((g_q >= 0 && (unsigned long)g_q < s) ==> !g_q_above)
__CPROVER_decreases(partSize - s)
//@end
//@rename RealVector_call => RealVector_call
//@function Pomerol::DensityMatrixPart::isRetained() const as DensityMatrixPart_isRetained
//@contract
__CPROVER_requires(__CPROVER_is_fresh(self, sizeof(*self)))
__CPROVER_assigns()
__CPROVER_ensures(__CPROVER_return_value == self->retained)
//@end
//@harness h_DMP_truncate enforce=DensityMatrixPart_truncate props=C19 min_obl=219 reach=3 timeout=120
void h_DMP_truncate(void)
{
  struct DensityMatrixPart *p; double eps;
  DensityMatrixPart_truncate(p, eps);
  if (g_last_read >= 0) REACH("exit_read"); else REACH("exit_empty");
  REACH("exit");
}
//@harness h_DMP_isRetained enforce=DensityMatrixPart_isRetained props=C19 min_obl=33 reach=1 timeout=120
void h_DMP_isRetained(void) { struct DensityMatrixPart *p; DensityMatrixPart_isRetained(p); REACH("exit"); }

/* =========================================================== DensityMatrixPart::getWeight(s), getPartialZ()  (C09)
 * DensityMatrixPart.h: "Returns the weight corresponding to a specified state. \param[in] s State inside this part" /
 * "Returns the partition function of this part": the stored weight of state s (s inside the block is a PRE-condition: Eigen's
 * operator() is unchecked under NDEBUG) resp. the stored Z_part; nothing is written. */
//@function Pomerol::DensityMatrixPart::getWeight(unsigned long) const as DensityMatrixPart_getWeight
//@contract
__CPROVER_requires(__CPROVER_is_fresh(self, sizeof(*self)))
__CPROVER_requires(RealVector_wf(&self->weights, SP_MAX) && s < (unsigned long)self->weights.size)
__CPROVER_assigns()
__CPROVER_ensures(D_SAME(__CPROVER_return_value, self->weights.data[s]))
//@end
//@function Pomerol::DensityMatrixPart::getPartialZ() const as DensityMatrixPart_getPartialZ
//@contract
__CPROVER_requires(__CPROVER_is_fresh(self, sizeof(*self)))
__CPROVER_assigns()
__CPROVER_ensures(D_SAME(__CPROVER_return_value, self->Z_part))
//@end
//@harness h_DMP_getWeight enforce=DensityMatrixPart_getWeight props=C09 min_obl=75 reach=1 timeout=120
void h_DMP_getWeight(void) { struct DensityMatrixPart *p; unsigned long s; DensityMatrixPart_getWeight(p, s); REACH("exit"); }
//@harness h_DMP_getPartialZ enforce=DensityMatrixPart_getPartialZ props=C09 min_obl=33 reach=1 timeout=120
void h_DMP_getPartialZ(void) { struct DensityMatrixPart *p; DensityMatrixPart_getPartialZ(p); REACH("exit"); }

/* =========================================================== DensityMatrixPart::computeUnnormalized  (C09)
 * "weights exp(-beta(E-E_ground))": for beta > 0 finite, GroundEnergy finite, eigenvalues finite and >= GroundEnergy:
 *   every exponent is <= 0 (exp stub), every weight is in [0,1] (ghost state g_q), none is NaN,
 *   0 <= Z_part <= number of states (finite), returned value = Z_part,
 *   the block of the ground state (ghost position g_gs with E[g_gs] == GroundEnergy): weight(g_gs) == 1 and Z_part >= 1. */
#define WSIZE (self->weights.size)
//@function Pomerol::DensityMatrixPart::computeUnnormalized() as DensityMatrixPart_computeUnnormalized
//@contract
__CPROVER_requires(__CPROVER_is_fresh(self, sizeof(*self)) && g_self == self)
__CPROVER_requires(RealVector_wf(&self->weights, SP_MAX) && RealVector_wf(&self->hpart.Eigenvalues, SP_MAX))
__CPROVER_requires(self->hpart.Eigenvalues.size == WSIZE && self->hpart.Status >= Computed && !VERIF_thrown)
__CPROVER_requires(g_q >= -1 && g_q < WSIZE && g_gs >= -1 && g_gs < WSIZE)
#ifdef VERIF_FP_IEEE
__CPROVER_requires(d_finite(self->beta) && self->beta > 0.0 && d_finite(self->GroundEnergy))
__CPROVER_requires(g_gs >= 0 ==> self->hpart.Eigenvalues.data[g_gs] == self->GroundEnergy)
#endif
__CPROVER_assigns(__CPROVER_object_whole(self->weights.data), self->Z_part, VERIF_thrown)
__CPROVER_ensures(!VERIF_thrown && D_SAME(__CPROVER_return_value, self->Z_part))
#ifdef VERIF_FP_IEEE
__CPROVER_ensures(0.0 <= self->Z_part && self->Z_part <= (double)WSIZE && self->Z_part <= (double)SP_MAX)
__CPROVER_ensures(g_q >= 0 ==> (0.0 <= self->weights.data[g_q] && self->weights.data[g_q] <= 1.0))
__CPROVER_ensures(g_gs >= 0 ==> (self->weights.data[g_gs] == 1.0 && self->Z_part >= 1.0))
#endif
//@loop 1
__CPROVER_assigns(s, __CPROVER_object_whole(self->weights.data), self->Z_part, VERIF_thrown)
__CPROVER_loop_invariant(s <= partSize && partSize == (unsigned long)WSIZE && !VERIF_thrown)
#ifdef VERIF_FP_IEEE
__CPROVER_loop_invariant(0.0 <= self->Z_part && self->Z_part <= (double)s)
__CPROVER_loop_invariant((g_q >= 0 && (unsigned long)g_q < s) ==> (0.0 <= self->weights.data[g_q] && self->weights.data[g_q] <= 1.0))
__CPROVER_loop_invariant((g_gs >= 0 && (unsigned long)g_gs < s) ==> (self->weights.data[g_gs] == 1.0 && self->Z_part >= 1.0))
#endif
__CPROVER_decreases(partSize - s)
//@end
//@harness h_DMP_computeUnnormalized enforce=DensityMatrixPart_computeUnnormalized props=C09 defs=-DVERIF_FP_IEEE,-DVERIF_FP_AXIOM min_obl=545 reach=2 timeout=300
void h_DMP_computeUnnormalized(void)
{
  struct DensityMatrixPart *p;
  DensityMatrixPart_computeUnnormalized(p);
  if (g_gs >= 0) REACH("exit_ground_block"); else REACH("exit_other_block");
}

/* =========================================================== DensityMatrixPart::normalize  (C09)
 * "Divide all the weights by the partition function."  Eigen's `v /= c` is a dependency:
 * ASSUMED (Eigen): every coefficient is replaced by coefficient / c -- kept for the ghost state g_q, the rest is havocked.
 * Proved for Z finite >= 1 (established by DensityMatrix::compute), weight(g_q) in [0,1], 0 <= Z_part finite:
 *   weight'(g_q) = weight(g_q)/Z in [0, weight(g_q)] (so still in [0,1]),  Z_part' = Z_part/Z in [0, Z_part]. */
static inline void RealVector_divassign(RealVector *v, const double *c)
{
  _Bool has = 0 <= g_q && g_q < v->size;
  double old = has ? v->data[g_q] : 0.0;
  if (v->size > 0) __CPROVER_havoc_slice(v->data, (size_t)v->size * 8UL);
  if (has) v->data[g_q] = D_DIV(old, *c);
}
//@function Pomerol::DensityMatrixPart::normalize(double) as DensityMatrixPart_normalize
//@contract
__CPROVER_requires(__CPROVER_is_fresh(self, sizeof(*self)))
__CPROVER_requires(RealVector_wf(&self->weights, SP_MAX) && g_q >= -1 && g_q < WSIZE)
#ifdef VERIF_FP_IEEE
__CPROVER_requires(d_finite(Z) && Z >= 1.0 && d_finite(self->Z_part) && self->Z_part >= 0.0)
__CPROVER_requires(g_q >= 0 ==> (0.0 <= self->weights.data[g_q] && self->weights.data[g_q] <= 1.0))
#endif
__CPROVER_assigns(__CPROVER_object_whole(self->weights.data), self->Z_part)
__CPROVER_ensures(D_SAME(self->Z_part, D_DIV(__CPROVER_old(self->Z_part), Z)))
__CPROVER_ensures(g_q >= 0 ==> D_SAME(self->weights.data[g_q], D_DIV(__CPROVER_old(self->weights.data[g_q]), Z)))
#ifdef VERIF_FP_IEEE
__CPROVER_ensures(0.0 <= self->Z_part && self->Z_part <= __CPROVER_old(self->Z_part))
__CPROVER_ensures(g_q >= 0 ==> (0.0 <= self->weights.data[g_q] && self->weights.data[g_q] <= __CPROVER_old(self->weights.data[g_q]) && self->weights.data[g_q] <= 1.0))
#endif
//@end
//@harness h_DMP_normalize enforce=DensityMatrixPart_normalize props=C09 defs=-DVERIF_FP_IEEE,-DVERIF_FP_AXIOM min_obl=275 reach=1 timeout=300
void h_DMP_normalize(void)
{
  struct DensityMatrixPart *p; double Z;
  DensityMatrixPart_normalize(p, Z);
  REACH("exit");
}

/* ================================================================================================================
 * DensityMatrix level.  The parts are opaque here: std::vector<DensityMatrixPart*> is modelled by its length, the element
 * at position k is the canonical handle PART_AT(k) (never dereferenced); the member functions of the parts are MONITORS
 * standing for the contracts proved above.  TRUSTED (std::vector): begin/end/++/ * / operator[] as for an array of n
 * elements; ASSERTED: operator[] and * inside the vector, end() not incremented. */
struct DensityMatrixPart g_parts[1];
#define PART_AT(k) (&g_parts[0] + (k))
#define PV_MAX 1000000L
typedef struct PartVec { unsigned long n; struct DensityMatrixPart *cur; /* ghost */ long gidx, last_pos; } PartVec;
typedef struct PartVecIt { PartVec *v; long pos; } PartVecIt;
#define PartVec_begin(v_) ((PartVecIt){ (v_), 0 })
#define PartVec_end(v_) ((PartVecIt){ (v_), (long)(v_)->n })
#define PartVecIt_ctor1(p) (*(p))                 /* const_iterator(iterator) */
#define op_ne_PartVecIt_PartVecIt(a, b) ((a)->pos != (b)->pos)
#define PartVecIt_postinc(it) ({ __CPROVER_assert(0 <= (it)->pos && (it)->pos < (long)(it)->v->n, "std::vector: end() is not incremented"); (it)->pos++; })
#define PartVecIt_mul(it) ({ \
  __CPROVER_assert(0 <= (it)->pos && (it)->pos < (long)(it)->v->n, "std::vector: iterator dereferenced only before end()"); \
  (it)->v->last_pos = (it)->pos; (it)->v->cur = PART_AT((it)->pos); \
  &(it)->v->cur; })
static inline struct DensityMatrixPart **PartVec_at(PartVec *v, unsigned long i)
{
  __CPROVER_assert(i < v->n, "std::vector<DensityMatrixPart*>::operator[]: index inside the vector");
  v->last_pos = (long)i; v->cur = PART_AT(i);
  return &v->cur;
}
/* StatesClassification (C07 package): contract stubs.  NumberOfBlocks() = number of blocks; getBlockSize(b) needs a block number */
struct StatesClassification { long nblocks; unsigned int Status; unsigned long StateSize; };
unsigned long nondet_size(void);
#ifndef VERIF_BLOCKNUMBER_DEFINED
#define VERIF_BLOCKNUMBER_DEFINED
typedef struct BlockNumber { int number; } BlockNumber;
#endif
static inline BlockNumber StatesClassification_NumberOfBlocks(struct StatesClassification *S) { BlockNumber b; b.number = (int)S->nblocks; return b; }
static inline unsigned long StatesClassification_getBlockSize(struct StatesClassification *S, BlockNumber in)
{
  __CPROVER_assert(0 <= in.number && in.number < S->nblocks, "StatesClassification::getBlockSize: the argument is a block number");
  return nondet_size();
}
//@tu src/pomerol/StatesClassification.cpp
//@function Pomerol::BlockNumber::operator<(Pomerol::BlockNumber const&) const as BlockNumber_lt
//@end
//@tu src/pomerol/DensityMatrix.cpp
//@function Pomerol::BlockNumber::BlockNumber(int) as BlockNumber_ctor1
//@end
//@function Pomerol::BlockNumber::operator int() const as BlockNumber_conv_int
//@end
//@function Pomerol::BlockNumber::operator++(int) as BlockNumber_postinc2
//@end
/* the call site `i++` is printed without the dummy int argument */
#define BlockNumber_postinc(p) BlockNumber_postinc2((p), 0)
//@struct Pomerol::DensityMatrix skip=H

struct DensityMatrix *g_dm;       /* the density matrix under verification (for the monitors) */
double g_tol;                     /* the tolerance every part must be truncated with */
long g_hits, g_last;              /* monitor calls at the ghost part; position of the part handled last */
unsigned long g_n_calls;          /* monitor calls */
/* retained flag of part k after t truncate() calls on the vector: opaque (its meaning is the contract of truncate above) */
_Bool __CPROVER_uninterpreted_part_retained(long, unsigned long);
void mon_part_truncate(struct DensityMatrixPart *part, double tol)
{
  PartVec *v = &g_dm->parts; long k = v->last_pos;
  __CPROVER_assert(0 <= k && k < (long)v->n && part == PART_AT(k), "C19: the part truncated is the vector element the iterator is on");
  __CPROVER_assert(k > g_last, "C19: every part is truncated at most once");
  __CPROVER_assert(D_SAME(tol, g_tol), "C19: every part is truncated with the tolerance given to truncateBlocks");
  g_last = k; g_n_calls++;
  if (k == v->gidx) g_hits++;
  REACH("part_truncate");
}
_Bool mon_part_isRetained(struct DensityMatrixPart *part)
{
  PartVec *v = &g_dm->parts; long k = v->last_pos;
  __CPROVER_assert(0 <= k && k < (long)v->n && part == PART_AT(k), "C19: the part asked is the vector element just selected");
  return __CPROVER_uninterpreted_part_retained(k, g_n_calls);
}

/* ---- DensityMatrix::isRetained(b) = parts[b]->isRetained()  ("Return true if the block has not been truncated").
 * parts[b] is unchecked: b must be a block number (obligation on the callers, discharged in gf.c / susc.c / ... from the
 * bimap invariant B3). */
//@rename DensityMatrixPart_isRetained => mon_part_isRetained
//@rename DensityMatrixPart_truncate => mon_part_truncate
//@function Pomerol::DensityMatrix::isRetained(Pomerol::BlockNumber) const as DensityMatrix_isRetained
//@contract
__CPROVER_requires(__CPROVER_is_fresh(self, sizeof(*self)) && g_dm == self)
__CPROVER_requires(self->parts.n <= PV_MAX && 0 <= in.number && (unsigned long)in.number < self->parts.n)
__CPROVER_assigns(self->parts.cur, self->parts.last_pos)
__CPROVER_ensures(__CPROVER_return_value == __CPROVER_uninterpreted_part_retained(in.number, g_n_calls))
//@end
//@harness h_DM_isRetained enforce=DensityMatrix_isRetained props=C19 min_obl=85 reach=1 timeout=120
void h_DM_isRetained(void) { struct DensityMatrix *dm; BlockNumber b; DensityMatrix_isRetained(dm, b); REACH("exit"); }

/* ---- DensityMatrix::truncateBlocks(Tolerance, verbose): "Truncate such blocks that do not include any states having larger
 * weight than Tolerance": truncate(Tolerance) on every part exactly once (ghost part), with that tolerance; the verbose branch
 * only counts (its output is dropped by the extractor) but must stay inside parts[] and the block table.
 * Type invariant (DensityMatrix::prepare): parts.size() == S.NumberOfBlocks(). */
//@function Pomerol::DensityMatrix::truncateBlocks(double, bool) as DensityMatrix_truncateBlocks
//@contract
__CPROVER_requires(__CPROVER_is_fresh(self, sizeof(*self)) && g_dm == self)
__CPROVER_requires(__CPROVER_is_fresh(self->S, sizeof(*self->S)) && self->parts.n <= PV_MAX && (long)self->parts.n == self->S->nblocks)
__CPROVER_requires(self->parts.gidx >= -1 && g_hits == 0 && g_last == -1 && g_n_calls == 0 && D_SAME(g_tol, Tolerance))
__CPROVER_assigns(self->parts.cur, self->parts.last_pos, g_hits, g_last, g_n_calls)
__CPROVER_ensures(g_n_calls == self->parts.n && g_hits == ((0 <= self->parts.gidx && self->parts.gidx < (long)self->parts.n) ? 1 : 0))
//@loop 1
__CPROVER_assigns(iter.pos, self->parts.cur, self->parts.last_pos, g_hits, g_last, g_n_calls)
__CPROVER_loop_invariant(iter.v == &self->parts && 0 <= iter.pos && iter.pos <= (long)self->parts.n)
__CPROVER_loop_invariant(g_last == iter.pos - 1 && g_n_calls == (unsigned long)iter.pos)
__CPROVER_loop_invariant(g_hits == ((0 <= self->parts.gidx && self->parts.gidx < iter.pos) ? 1 : 0))
__CPROVER_decreases((long)self->parts.n - iter.pos)
//@loop 2
__CPROVER_assigns(i.number, n_blocks_retained, n_states_retained, self->parts.cur, self->parts.last_pos)
__CPROVER_loop_invariant(0 <= i.number && i.number <= self->S->nblocks && 0 <= n_blocks_retained && n_blocks_retained <= i.number)
__CPROVER_decreases(self->S->nblocks - i.number)
//@end
//@harness h_DM_truncateBlocks enforce=DensityMatrix_truncateBlocks props=C19 min_obl=534 reach=4 timeout=120
void h_DM_truncateBlocks(void)
{
  struct DensityMatrix *dm; double eps; _Bool verbose;
  DensityMatrix_truncateBlocks(dm, eps, verbose);
  if (verbose) REACH("exit_verbose"); else REACH("exit_quiet");
  if (g_n_calls == 0) REACH("exit_no_parts");
}

/* ---- DensityMatrix::compute  (C09: "weights exp(-beta(E-E_ground)) normalised by the total partition function")
 *   Z = ((0 + Z_0) + Z_1) + ...  over the partial partition functions returned by computeUnnormalized() of every part (each
 *   called exactly once, in order: monitor + model sum g_zsum), then normalize(Z) on every part exactly once, with that Z.
 *   The ground state lies in some block (ghost g_ground_block; C03: the ground energy is the minimum over the blocks and is
 *   attained) ==> Z >= 1, and Z is finite ==> the pre-condition of normalize() holds at every call (asserted by the monitor), i.e.
 *   by h_DMP_normalize every normalised weight is in [0,1].  Status = Computed.  Already computed: nothing happens.
 * mon_part_computeUnnormalized ASSUMES exactly the post-condition proved in h_DMP_computeUnnormalized. */
cplx g_unused_;
double g_zsum;                    /* model of the running sum of partial partition functions */
long g_ground_block;              /* ghost: the block that contains the ground state */
long g_cu_hits, g_cu_last; unsigned long g_n_cu;      /* computeUnnormalized monitor */
long g_nz_hits, g_nz_last; unsigned long g_n_nz;      /* normalize monitor */
#define DBITS(x) (*(unsigned long *)&(x))
double mon_part_computeUnnormalized(struct DensityMatrixPart *part)
{
  PartVec *v = &g_dm->parts; long k = v->last_pos;
  __CPROVER_assert(0 <= k && k < (long)v->n && part == PART_AT(k), "C09: the part computed is the vector element the iterator is on");
  __CPROVER_assert(k > g_cu_last && g_n_nz == 0, "C09: every part is computed at most once, before any normalisation");
  double z = nondet_double();
  /* ASSUMED: post-condition of DensityMatrixPart::computeUnnormalized (h_DMP_computeUnnormalized): 0 <= Z_part <= SP_MAX
   * (at most SP_MAX = 10^6 states per block, type bound of the vector model), >= 1 in the block of the ground state */
#ifdef VERIF_FP_IEEE
  __CPROVER_assume(0.0 <= z && z <= (double)SP_MAX);
  if (k == g_ground_block) __CPROVER_assume(z >= 1.0);
#endif
  g_zsum = D_ADD(g_zsum, z);
  g_cu_last = k; g_n_cu++;
  if (k == v->gidx) g_cu_hits++;
  REACH("part_computeUnnormalized");
  return z;
}
void mon_part_normalize(struct DensityMatrixPart *part, double Z)
{
  PartVec *v = &g_dm->parts; long k = v->last_pos;
  __CPROVER_assert(0 <= k && k < (long)v->n && part == PART_AT(k), "C09: the part normalised is the vector element the iterator is on");
  __CPROVER_assert(k > g_nz_last && g_n_cu == v->n, "C09: every part is normalised at most once, after all parts were computed");
  __CPROVER_assert(D_SAME(Z, g_zsum), "C09: the normalisation constant is the sum of the partial partition functions");
#ifdef VERIF_FP_IEEE
  __CPROVER_assert(d_finite(Z) && Z >= 1.0, "C09: pre-condition of normalize: Z is finite and >= 1 (normalised weights stay in [0,1])");
#endif
  g_nz_last = k; g_n_nz++;
  if (k == v->gidx) g_nz_hits++;
  REACH("part_normalize");
}
//@rename DensityMatrixPart_computeUnnormalized => mon_part_computeUnnormalized
//@rename DensityMatrixPart_normalize => mon_part_normalize
#define COMPUTE_FRAME self->parts.cur, self->parts.last_pos, g_zsum, g_cu_hits, g_cu_last, g_n_cu, g_nz_hits, g_nz_last, g_n_nz
#define ONCE(idx, n) ((0 <= (idx) && (idx) < (long)(n)) ? 1 : 0)
//@function Pomerol::DensityMatrix::compute() as DensityMatrix_compute
//@contract
__CPROVER_requires(__CPROVER_is_fresh(self, sizeof(*self)) && g_dm == self)
__CPROVER_requires(self->parts.n <= PV_MAX && self->parts.gidx >= -1)
/* the ground state lies in one of the blocks */
__CPROVER_requires(0 <= g_ground_block && g_ground_block < (long)self->parts.n)
__CPROVER_requires(DBITS(g_zsum) == 0 && g_cu_hits == 0 && g_cu_last == -1 && g_n_cu == 0 && g_nz_hits == 0 && g_nz_last == -1 && g_n_nz == 0)
__CPROVER_assigns(self->Status, COMPUTE_FRAME)
__CPROVER_ensures(__CPROVER_old(self->Status) >= Computed ==> (self->Status == __CPROVER_old(self->Status) && g_n_cu == 0 && g_n_nz == 0))
__CPROVER_ensures(__CPROVER_old(self->Status) < Computed ==> (self->Status == Computed && g_n_cu == self->parts.n && g_n_nz == self->parts.n &&
                  g_cu_hits == ONCE(self->parts.gidx, self->parts.n) && g_nz_hits == ONCE(self->parts.gidx, self->parts.n)))
//@loop 1
__CPROVER_assigns(iter.pos, Z, self->parts.cur, self->parts.last_pos, g_zsum, g_cu_hits, g_cu_last, g_n_cu)
__CPROVER_loop_invariant(iter.v == &self->parts && 0 <= iter.pos && iter.pos <= (long)self->parts.n)
__CPROVER_loop_invariant(g_cu_last == iter.pos - 1 && g_n_cu == (unsigned long)iter.pos && g_n_nz == 0 && g_nz_last == -1 && g_nz_hits == 0)
__CPROVER_loop_invariant(g_cu_hits == ONCE(self->parts.gidx, iter.pos))
__CPROVER_loop_invariant(DBITS(Z) == DBITS(g_zsum))
#ifdef VERIF_FP_IEEE
/* Z <= pos * 2^20 (each partial Z is <= 10^6 < 2^20): finite */
__CPROVER_loop_invariant(0.0 <= Z && Z <= (double)((unsigned long)iter.pos << 20) && (g_ground_block < iter.pos ==> Z >= 1.0))
#endif
__CPROVER_decreases((long)self->parts.n - iter.pos)
//@loop 2
__CPROVER_assigns(iter.pos, self->parts.cur, self->parts.last_pos, g_nz_hits, g_nz_last, g_n_nz)
__CPROVER_loop_invariant(iter.v == &self->parts && 0 <= iter.pos && iter.pos <= (long)self->parts.n &&
                         g_nz_last == iter.pos - 1 && g_n_nz == (unsigned long)iter.pos && g_nz_hits == ONCE(self->parts.gidx, iter.pos))
__CPROVER_decreases((long)self->parts.n - iter.pos)
//@end
//@harness h_DM_compute enforce=DensityMatrix_compute props=C09 defs=-DVERIF_FP_IEEE min_obl=638 reach=4 timeout=300
void h_DM_compute(void)
{
  struct DensityMatrix *dm;
  DensityMatrix_compute(dm);
  if (g_n_cu == 0) REACH("exit_already_computed"); else REACH("exit_computed");
}

/* ---- DensityMatrix::getWeight(state), getPart(BlockNumber), getPart(QuantumNumbers)  (C09; DensityMatrix.h: "Returns the value of the
 * density matrix corresponding to a specified quantum state" / "Returns a part of the density matrix. \param in A part number" /
 * "... A set of the quantum numbers to be resolved into a part number").
 * StatesClassification (C07 package, under contract in states.c: h_getBlockNumber_q, h_getInnerState_q) is a CONTRACT STUB:
 *   getBlockNumber(state) / getInnerState(state): exStatusMismatch / exWrongState iff S is not computed or state >= StateSize;
 *     otherwise block(state) resp. inner(state) (opaque oracles of the state).
 *     ASSUMED = their post-conditions under the representation invariant SC_REP of states.c (post-condition of
 *     StatesClassification::compute): 0 <= block(state) < number of blocks, inner(state) < size of that block.
 *   getBlockNumber(QuantumNumbers): exStatusMismatch iff not computed; the block with these quantum numbers, ERROR_BLOCK_NUMBER (-1) if none.
 * DensityMatrixPart::getWeight(s) (h_DMP_getWeight above) is a MONITOR here: its pre-condition s < size of the block is asserted,
 *   its value is the opaque weight(k, s) of the part at position k.
 * Type invariant (DensityMatrix::prepare, dmprepare.c): parts.size() == S.NumberOfBlocks(); part k belongs to block k. */
int __CPROVER_uninterpreted_block_of(unsigned long);
unsigned long __CPROVER_uninterpreted_inner_of(unsigned long);
unsigned long __CPROVER_uninterpreted_block_size(long);
int __CPROVER_uninterpreted_block_of_qn(unsigned long);
double __CPROVER_uninterpreted_part_weight(long, unsigned long);
//@record Pomerol::Symmetrizer::QuantumNumbers => QN ptr
typedef struct QN { unsigned long hash; } QN;
static inline BlockNumber SC_stub_getBlockNumber_state(struct StatesClassification *S, unsigned long state)
{
  BlockNumber b; b.number = -1;
  if (S->Status < Computed || state >= S->StateSize) { VERIF_THROW("exStatusMismatch/exWrongState"); return b; }
  b.number = __CPROVER_uninterpreted_block_of(state);
  /* ASSUMED (states.c, SC_REP): the stored block index of a state is a block number */
  __CPROVER_assume(0 <= b.number && b.number < S->nblocks);
  return b;
}
static inline unsigned long SC_stub_getInnerState(struct StatesClassification *S, unsigned long state)
{
  if (S->Status < Computed || state >= S->StateSize) { VERIF_THROW("exStatusMismatch/exWrongState"); return 0; }
  unsigned long i = __CPROVER_uninterpreted_inner_of(state);
  /* ASSUMED (states.c, h_getInnerState_q + SC_REP): the position of the state inside its block */
  __CPROVER_assume(i < __CPROVER_uninterpreted_block_size(__CPROVER_uninterpreted_block_of(state)));
  return i;
}
BlockNumber g_bn_tmp;   /* the temporary BlockNumber returned by value (the printer takes its address for `operator int`) */
static inline BlockNumber *SC_stub_getBlockNumber_qn_p(struct StatesClassification *S, QN in)
{
  __CPROVER_assert(S->Status >= Computed, "StatesClassification::getBlockNumber(QuantumNumbers): computed (else exStatusMismatch; that exit is not modelled inside an expression)");
  g_bn_tmp.number = __CPROVER_uninterpreted_block_of_qn(in.hash);
  /* ASSUMED (StatesClassification.cpp: QuantumToBlock maps to stored block numbers, else ERROR_BLOCK_NUMBER) */
  __CPROVER_assume(-1 <= g_bn_tmp.number && g_bn_tmp.number < S->nblocks);
  return &g_bn_tmp;
}
#define SC_stub_getBlockNumber_qn(S_, in_) (*SC_stub_getBlockNumber_qn_p((S_), (in_)))
double mon_part_getWeight(struct DensityMatrixPart *part, unsigned long s)
{
  PartVec *v = &g_dm->parts; long k = v->last_pos;
  __CPROVER_assert(0 <= k && k < (long)v->n && part == PART_AT(k), "C09: the part asked is the vector element just selected");
  __CPROVER_assert(s < __CPROVER_uninterpreted_block_size(k), "C09: DensityMatrixPart::getWeight(s): s is a state inside the block");
  REACH("part_getWeight");
  return __CPROVER_uninterpreted_part_weight(k, s);
}
//@rename DensityMatrixPart_getWeight => mon_part_getWeight
//@rename StatesClassification_getBlockNumber => SC_stub_getBlockNumber_state
//@rename StatesClassification_getInnerState => SC_stub_getInnerState
//@maythrow SC_stub_getBlockNumber_state SC_stub_getInnerState
//@function Pomerol::DensityMatrix::getWeight(unsigned long) const as DensityMatrix_getWeight
//@contract
__CPROVER_requires(__CPROVER_is_fresh(self, sizeof(*self)) && g_dm == self && !VERIF_thrown)
__CPROVER_requires(__CPROVER_is_fresh(self->S, sizeof(*self->S)) && self->parts.n <= PV_MAX && (long)self->parts.n == self->S->nblocks)
__CPROVER_assigns(self->parts.cur, self->parts.last_pos, VERIF_thrown)
/* rejected exactly: density matrix not computed, states classification not computed, or not a state of the model */
__CPROVER_ensures(VERIF_thrown == (self->Status < Computed || self->S->Status < Computed || state >= self->S->StateSize))
/* otherwise the weight of the state's block at the state's inner position */
__CPROVER_ensures(!VERIF_thrown ==> D_SAME(__CPROVER_return_value,
    __CPROVER_uninterpreted_part_weight(__CPROVER_uninterpreted_block_of(state), __CPROVER_uninterpreted_inner_of(state))))
//@end
//@harness h_DM_getWeight enforce=DensityMatrix_getWeight props=C09 min_obl=177 reach=3 timeout=120
void h_DM_getWeight(void)
{
  struct DensityMatrix *dm; unsigned long state;
  DensityMatrix_getWeight(dm, state);
  if (VERIF_thrown) REACH("rejected"); else REACH("exit");
}

/* getPart(b) = *parts[b]: b in [0, #parts) is a PRE-condition (operator[] is unchecked; the callers' obligation, discharged in
 * gf.c / susc.c / tpgf.c / ensavg.c from the bimap invariant B3).  Result: the part at position b; nothing else is touched. */
//@function Pomerol::DensityMatrix::getPart(Pomerol::BlockNumber) const as DensityMatrix_getPart_b
//@contract
__CPROVER_requires(__CPROVER_is_fresh(self, sizeof(*self)) && g_dm == self)
__CPROVER_requires(self->parts.n <= PV_MAX && 0 <= in.number && (unsigned long)in.number < self->parts.n)
__CPROVER_assigns(self->parts.cur, self->parts.last_pos)
__CPROVER_ensures(__CPROVER_return_value == PART_AT(in.number))
//@end
//@harness h_DM_getPart_b enforce=DensityMatrix_getPart_b props=C09 min_obl=72 reach=1 timeout=120
void h_DM_getPart_b(void) { struct DensityMatrix *dm; BlockNumber b; DensityMatrix_getPart_b(dm, b); REACH("exit"); }

/* getPart(QuantumNumbers) = *parts[S.getBlockNumber(in)]: the part of the block with these quantum numbers.  PRE-conditions: the
 * states classification is computed (otherwise exStatusMismatch: that exit is NOT covered -- the printer has no exception check
 * inside a return expression) and a block with these quantum numbers exists (for unknown quantum numbers getBlockNumber returns
 * ERROR_BLOCK_NUMBER = -1 and parts[-1] is read unchecked: see the remark at the end of the file). */
//@rename StatesClassification_getBlockNumber => SC_stub_getBlockNumber_qn
//@function Pomerol::DensityMatrix::getPart(Pomerol::Symmetrizer::QuantumNumbers const&) const as DensityMatrix_getPart_qn
//@contract
__CPROVER_requires(__CPROVER_is_fresh(self, sizeof(*self)) && g_dm == self && __CPROVER_is_fresh(in, sizeof(*in)))
__CPROVER_requires(__CPROVER_is_fresh(self->S, sizeof(*self->S)) && self->parts.n <= PV_MAX && (long)self->parts.n == self->S->nblocks)
__CPROVER_requires(self->S->Status >= Computed && __CPROVER_uninterpreted_block_of_qn(in->hash) >= 0)
__CPROVER_assigns(self->parts.cur, self->parts.last_pos, g_bn_tmp)
__CPROVER_ensures(__CPROVER_return_value == PART_AT(__CPROVER_uninterpreted_block_of_qn(in->hash)))
//@end
//@harness h_DM_getPart_qn enforce=DensityMatrix_getPart_qn props=C09 min_obl=132 reach=1 timeout=120
void h_DM_getPart_qn(void)
{
  struct DensityMatrix *dm; QN *q;
  DensityMatrix_getPart_qn(dm, q);
  REACH("exit");
}

/* =====================================================================================================================
 * WHAT IS PROVED (for all inputs satisfying the stated type invariants), WHAT IS NOT
 *
 * h_DMP_truncate (DensityMatrixPart::truncate, C19; default arithmetic: `>` on doubles is an uninterpreted predicate):
 *   retained <==> some weight > Tolerance: "<==" for an arbitrary ghost state g_q, "==>" with the weight read last as witness;
 *   only `retained` is written (frame); every weight access inside the vector; termination.
 * h_DMP_isRetained: returns the flag.     h_DM_isRetained (DensityMatrix::isRetained): = parts[b]->isRetained() for 0 <= b < #parts
 *   (b in range is a PRE-condition: operator[] is unchecked; the callers' obligation, see gf.c).
 * h_DM_truncateBlocks: every part is truncated exactly once (ghost part), in order, with the tolerance given to truncateBlocks;
 *   the verbose branch stays inside parts[] and the block table (needs the type invariant parts.size() == S.NumberOfBlocks()),
 *   its counters cannot overflow; termination of both loops.
 * h_DMP_computeUnnormalized (C09; bit-precise floats, '*' through stubs/fp_axiom.h, exp = contract): for beta > 0 finite, GroundEnergy
 *   finite, every eigenvalue finite and >= GroundEnergy (ASSUMED type invariant, see Eigenvalues_at): every exponent handed to exp is a
 *   number <= 0 (also when E - E_ground overflows to +inf); every weight in [0,1] (ghost state); 0 <= Z_part <= #states <= 10^6;
 *   returned value = Z_part; in the block holding the ground state weight = 1 and Z_part >= 1; getEigenValue never throws (Status>=Computed).
 * h_DMP_normalize: weights'(q) = weights(q)/Z, Z_part' = Z_part/Z (pins); for Z finite >= 1: weights'(q) in [0, weights(q)] subset [0,1],
 *   Z_part' in [0, Z_part].  Eigen's `v /= c` is a stub (ASSUMED: coefficient-wise division, kept for the ghost coefficient).
 * h_DM_compute: computeUnnormalized() on every part exactly once, then normalize(Z) on every part exactly once with Z = the left-fold
 *   sum of the returned partial partition functions; Z is finite and >= 1 at every normalize() call (the ground state lies in some
 *   block: ghost), which is the pre-condition under which h_DMP_normalize keeps the weights in [0,1]; Status = Computed; early return.
 *   The two part functions are monitors here; mon_part_computeUnnormalized ASSUMES the post-condition proved in h_DMP_computeUnnormalized.
 * h_DMP_getWeight / h_DMP_getPartialZ: the stored weight of state s (s inside the block: PRE-condition, Eigen's operator() is unchecked) /
 *   the stored Z_part, bit-exact; nothing written.
 * h_DM_getWeight (DensityMatrix::getWeight(state)): exStatusMismatch / exWrongState exactly when the density matrix or the states
 *   classification is not computed or state >= StateSize; otherwise = getWeight(inner(state)) of the part of block(state) (the part selected is
 *   parts[block(state)], the inner position handed to it is inside that block: monitor), parts[] is indexed inside the vector.
 *   StatesClassification::getBlockNumber / getInnerState are contract stubs whose ASSUMED guarantees are the post-conditions of states.c.
 * h_DM_getPart_b / h_DM_getPart_qn: the part at position b (0 <= b < #parts: PRE-condition) / at the block with the given quantum numbers
 *   (PRE-conditions: S computed, such a block exists).  NOT covered: the exStatusMismatch exit of the QuantumNumbers overload.
 *   REMARK (not a defect of a documented workflow; no caller inside the library): getPart(QuantumNumbers) -- like Hamiltonian::getPart(QuantumNumbers) --
 *   does not test for ERROR_BLOCK_NUMBER: quantum numbers that belong to no block make it read parts[(size_t)-1].
 * NOT proved: sum of weights = 1, ratios exp(-beta dE) (accuracy statements); Z_part/Z <= 1 (needs a/b <= 1 for a <= b, not among the
 *   proved division facts); DensityMatrix::getAverage* (averages.c), prepare (dmprepare.c); the eps-proportional deviation bound of C19.
 *
 * ASSUMPTIONS introduced here: StatesClassification contract stubs (0 <= block(state) < #blocks, inner(state) < size of that block, block(qn) in [-1,#blocks):
 *   post-conditions of states.c under its representation invariant); exp contract (x <= 0 ==> 0 <= exp x <= 1, exp(0) = 1, exp >= 0); eigenvalues finite and >= GroundEnergy
 *   (C03); Eigen `v /= c`; std::vector / StatesClassification stubs; the facts of stubs/fp_axiom.h (each proved by a lemma harness in gfterm.c).
 *
 * MUTANTS (scratch copy of /repo, re-extracted; obligation that failed)
 *   computeUnnormalized: no ground-energy shift -> exp.assertion.2 (exponent <= 0), loop_invariant_step.2/.3
 *                        exp(+beta*...)          -> exp.assertion.2, loop_invariant_step.2/.3/.4
 *                        Z_part = w              -> loop_invariant_step.4 (Z_part >= 1 in the ground block)
 *                        loop from s = 1         -> postcondition.3/.4, loop_invariant_base.2
 *   normalize:           Z_part not divided      -> postcondition.1;   weights *= Z -> no model of operator*= (undecided, not a pass)
 *   truncate:            `>` -> `<`              -> postcondition.2, loop_invariant_step.2;   loop from 1 -> postcondition.1, loop_invariant_base.2
 *                        retained = true at entry -> postcondition.2, loop_invariant_base.2
 *   truncateBlocks:      truncate(0)             -> mon_part_truncate.assertion.3;   BlockNumber i = -1 in the verbose loop -> PartVec_at.assertion.1, StatesClassification_getBlockSize.assertion.1, loop_invariant_base.2
 *   DM::isRetained:      parts[in+1]             -> PartVec_at.assertion.1, postcondition.1
 *   DM::compute:         normalize(1.0)          -> mon_part_normalize.assertion.3;   Z = instead of += -> loop invariant (accumulator != model)
 *                        no Status update        -> postcondition.2;   no early return -> postcondition.1
 *   DMP::getWeight:      weights(0) -> postcondition.1;   weights(s)*beta -> postcondition.1
 *   DMP::getPartialZ:    Z_part*beta -> postcondition.1;   GroundEnergy -> postcondition.1
 *   DM::getWeight:       getWeight(state) instead of InnerState -> postcondition.2, mon_part_getWeight.assertion.2
 *                        parts[0] -> postcondition.2, mon_part_getWeight.assertion.2;   Status < Prepared in the guard -> postcondition.1
 *   DM::getPart(b):      parts[in+1] -> postcondition.1, PartVec_at.assertion.1;   parts[0] -> postcondition.1
 *   DM::getPart(qn):     parts[..+1] -> postcondition.1, PartVec_at.assertion.1;   parts[0] -> postcondition.1, PartVec_at.assertion.1
 */
