/* Lattice -- input validation and faithful lookup (C20): Lattice::addTerm, getSite, addSite, and the term storage
 * Lattice::TermStorage::addTerm / getTerms / getMaxTermOrder.
 *
 * Models: site labels = opaque ids (stubs/strlabel.h); Lattice::SiteMap = stubs/sitemap.h (ghost key glabel/gk);
 * the vectors of a Term = fixed arrays of capacity 6 (stubs/termvec.h);
 * std::map<unsigned, TermList> = ghost-key model (ONE arbitrary ghost order g.first: presence + its list),
 * std::list<Term*> = size + ONE arbitrary ghost position gp with its element gelem (push_back appends at position size).
 */
#include "../stubs/common.h"
#include "../stubs/cplx.h"
#include "../stubs/strlabel.h"
#include "../stubs/termvec.h"
//@include types_common.inc
//@include types_lattice.inc
//@type std::vector<bool> => VecBool ptr
//@type std::vector<std::(__cxx11::)?basic_string<char> ?>|std::vector<std::string> => VecLabel ptr
//@type std::vector<unsigned short> => VecUS ptr
//@type (Pomerol::)?Lattice::TermList|std::(__cxx11::)?list<(Pomerol::)?Lattice::Term \*> => TermList ptr
//@type std::map<unsigned int, (Pomerol::)?Lattice::TermList>|std::map<unsigned int, std::(__cxx11::)?list<Pomerol::Lattice::Term \*> ?> => TermMap ptr
//@type std::map<unsigned int, ((Pomerol::)?Lattice::TermList|std::(__cxx11::)?list<(Pomerol::)?Lattice::Term \*> ?)>::(const_)?iterator|std::_Rb_tree_(const_)?iterator<std::pair<const unsigned int, std::(__cxx11::)?list<Pomerol::Lattice::Term \*> ?> ?> => TermMapIt val
//@free abs(double) => d_abs
//@rename Lattice_addSite/1 => Lattice_addSite1
//@tu src/pomerol/Lattice.cpp
//@struct Pomerol::Lattice::Site
#include "../stubs/sitemap.h"
//@struct Pomerol::Lattice::Term

/* ---- std::list<Term*> and std::map<unsigned, TermList> */
typedef struct TermList { unsigned long size; unsigned long gp; struct Lattice_Term *gelem; } TermList;
typedef struct TermPair { unsigned int first; TermList second; } TermPair;
typedef struct TermMap { TermPair g; _Bool gpresent; TermPair other; } TermMap;
typedef struct TermMapIt { TermPair *p; } TermMapIt;
unsigned long nondet_ulong(void);
static inline void TermList_push_back(TermList *l, struct Lattice_Term *p)
{
  if (l->size == l->gp) l->gelem = p;     /* appended at position `size` */
  l->size++;
}
static inline TermList *TermMap_at(TermMap *m, unsigned int *key)      /* operator[]: inserts an empty list if absent */
{
  if (*key == m->g.first) {
    if (!m->gpresent) { m->gpresent = 1; m->g.second.size = 0; }
    return &m->g.second;
  }
  m->other.second.size = nondet_ulong(); m->other.second.gp = nondet_ulong();
  return &m->other.second;
}
static inline TermMapIt TermMap_find_f(TermMap *m, unsigned int key)
{
  TermMapIt it;
  if (key == m->g.first) it.p = m->gpresent ? &m->g : (TermPair *)0;
  else if (nondet_bool()) { m->other.first = key; m->other.second.size = nondet_ulong(); it.p = &m->other; }
  else it.p = (TermPair *)0;
  return it;
}
#define TermMap_find(m, k) (*(TermMapIt[1]){ TermMap_find_f((m), (k)) })
#define TermMap_end(m) (*(TermMapIt[1]){ { (TermPair *)0 } })
#define op_ne_TermMapIt_TermMapIt(a, b) ((a)->p != (b)->p)
#define op_eq_TermMapIt_TermMapIt(a, b) ((a)->p == (b)->p)
#define TermMapIt_arrow(it) (__CPROVER_assert((it)->p != (TermPair *)0, "std::map iterator dereferenced only before end()"), (it)->p)
TermList g_newlist; unsigned long g_newlist_calls;
static inline TermList *TermList_new0(void) { g_newlist.size = 0; g_newlist_calls++; return &g_newlist; }   /* new TermList() */

//@struct Pomerol::Lattice::TermStorage
//@struct Pomerol::Lattice

/* ---- `new Term(*T)` / `new Site(...)`: fresh objects (one allocation per call of the functions below) */
struct Lattice_Term g_newterm; unsigned long g_newterm_calls;
struct Lattice_Site g_newsite; unsigned long g_newsite_calls;
//@function Pomerol::Lattice::Term::Term(Pomerol::Lattice::Term const&) as Lattice_Term_copy_ctor1
//@end
//@function Pomerol::Lattice::Site::Site(std::__cxx11::basic_string<char, std::char_traits<char>, std::allocator<char> > const&, unsigned short, unsigned short) as Lattice_Site_mk_ctor3
//@end
static inline struct Lattice_Term *Lattice_Term_new1(struct Lattice_Term *T)
{
  __CPROVER_assert(g_newterm_calls == 0, "model: one `new Term` per call");
  Lattice_Term_copy_init1(&g_newterm, T); g_newterm_calls++;
  return &g_newterm;
}
static inline struct Lattice_Site *Lattice_Site_new3(label_t l, unsigned short o, unsigned short s)
{
  __CPROVER_assert(g_newsite_calls == 0, "model: one `new Site` per call");
  Lattice_Site_mk_init3(&g_newsite, l, o, s); g_newsite_calls++;
  return &g_newsite;
}

#define TERM_WF(T) ((T)->N <= TV_MAX && (T)->OperatorSequence.size == (T)->N && (T)->SiteLabels.size == (T)->N && (T)->Spins.size == (T)->N && (T)->Orbitals.size == (T)->N)
#define TERM_EQ_AT(a, b, p) ((a).OperatorSequence.d[p] == (b).OperatorSequence.d[p] && (a).SiteLabels.d[p] == (b).SiteLabels.d[p] && (a).Spins.d[p] == (b).Spins.d[p] && (a).Orbitals.d[p] == (b).Orbitals.d[p])
#define TERM_EQ(a, b) ((a).N == (b).N && (a).OperatorSequence.size == (b).OperatorSequence.size && (a).SiteLabels.size == (b).SiteLabels.size && \
   (a).Spins.size == (b).Spins.size && (a).Orbitals.size == (b).Orbitals.size && D_SAME((a).Value, (b).Value) && \
   ((a).N > 0 ==> TERM_EQ_AT(a, b, 0)) && ((a).N > 1 ==> TERM_EQ_AT(a, b, 1)) && ((a).N > 2 ==> TERM_EQ_AT(a, b, 2)) && \
   ((a).N > 3 ==> TERM_EQ_AT(a, b, 3)) && ((a).N > 4 ==> TERM_EQ_AT(a, b, 4)) && ((a).N > 5 ==> TERM_EQ_AT(a, b, 5)))

//@function Pomerol::Lattice::Term::getOrder() const as Lattice_Term_getOrder
//@end

/* ================= TermStorage ================= */
#define TS_G (self->Terms.g)
//@function Pomerol::Lattice::TermStorage::addTerm(Pomerol::Lattice::Term const*) as Lattice_TermStorage_addTerm
//@contract
__CPROVER_requires(__CPROVER_is_fresh(self, sizeof(*self)) && __CPROVER_is_fresh(T, sizeof(*T)) && TERM_WF(T) && g_newterm_calls == 0)
__CPROVER_requires(TS_G.second.size < 1000000000UL)
__CPROVER_assigns(self->Terms, self->MaxTermOrder, g_newterm, g_newterm_calls)
/* C20 (ghost order n = g.first, ghost position gp): the list of order N gains exactly one element, at its end, a copy of *T;
 * every other position and every other order is unchanged */
__CPROVER_ensures(__CPROVER_return_value == 0 && g_newterm_calls == 1 && TERM_EQ(g_newterm, *T))
__CPROVER_ensures(TS_G.first == __CPROVER_old(TS_G.first) && TS_G.second.gp == __CPROVER_old(TS_G.second.gp))
__CPROVER_ensures(T->N == TS_G.first ==> (self->Terms.gpresent && TS_G.second.size == (__CPROVER_old(self->Terms.gpresent) ? __CPROVER_old(TS_G.second.size) : 0UL) + 1 &&
     TS_G.second.gelem == (TS_G.second.gp == TS_G.second.size - 1 ? &g_newterm : __CPROVER_old(TS_G.second.gelem))))
__CPROVER_ensures(T->N != TS_G.first ==> (self->Terms.gpresent == __CPROVER_old(self->Terms.gpresent) && TS_G.second.size == __CPROVER_old(TS_G.second.size) && TS_G.second.gelem == __CPROVER_old(TS_G.second.gelem)))
/* MaxTermOrder = max of the orders inserted */
__CPROVER_ensures(self->MaxTermOrder == (__CPROVER_old(self->MaxTermOrder) < T->N ? T->N : __CPROVER_old(self->MaxTermOrder)))
//@end
//@function Pomerol::Lattice::TermStorage::getMaxTermOrder() const as Lattice_TermStorage_getMaxTermOrder
//@contract
__CPROVER_requires(__CPROVER_is_fresh(self, sizeof(*self)))
__CPROVER_assigns()
__CPROVER_ensures(__CPROVER_return_value == self->MaxTermOrder)
//@end
//@function Pomerol::Lattice::TermStorage::getTerms[abi:cxx11](unsigned int) const as Lattice_TermStorage_getTerms
//@contract
__CPROVER_requires(__CPROVER_is_fresh(self, sizeof(*self)) && N == TS_G.first && g_newlist_calls == 0)
__CPROVER_assigns(self->Terms.other, g_newlist, g_newlist_calls)
/* C20: terms are retrievable by order: the stored list of that order, an empty list if there is none */
__CPROVER_ensures(self->Terms.gpresent ==> (__CPROVER_return_value == &TS_G.second && g_newlist_calls == 0))
__CPROVER_ensures(!self->Terms.gpresent ==> (__CPROVER_return_value == &g_newlist && g_newlist.size == 0 && g_newlist_calls == 1))
//@end

//@harness h_TS_addTerm enforce=Lattice_TermStorage_addTerm props=C20 min_obl=571 reach=1 objbits=8 timeout=60
void h_TS_addTerm(void) { struct Lattice_TermStorage *s; struct Lattice_Term *t; Lattice_TermStorage_addTerm(s, t); REACH("exit"); }
//@harness h_TS_getMaxTermOrder enforce=Lattice_TermStorage_getMaxTermOrder props=C20 min_obl=33 reach=1 objbits=8 timeout=60
void h_TS_getMaxTermOrder(void) { struct Lattice_TermStorage *s; Lattice_TermStorage_getMaxTermOrder(s); REACH("exit"); }
//@harness h_TS_getTerms enforce=Lattice_TermStorage_getTerms props=C20 min_obl=72 reach=1 objbits=8 timeout=60
void h_TS_getTerms(void) { struct Lattice_TermStorage *s; unsigned int n; Lattice_TermStorage_getTerms(s, n); REACH("exit"); }

/* ================= Lattice ================= */
#define LM (&self->Sites)
/* g_pos[p] = position in the site map of the label of operator p (n if the map has no such key): ghost copy of the
 * uninterpreted position function (A3 of sitemap.h), because CBMC rejects function applications in loop invariants */
long g_pos[TV_MAX];
#define G_POS_DEF(T) (g_pos[0] == SITEPOS((T)->SiteLabels.d[0]) && g_pos[1] == SITEPOS((T)->SiteLabels.d[1]) && g_pos[2] == SITEPOS((T)->SiteLabels.d[2]) && \
                      g_pos[3] == SITEPOS((T)->SiteLabels.d[3]) && g_pos[4] == SITEPOS((T)->SiteLabels.d[4]) && g_pos[5] == SITEPOS((T)->SiteLabels.d[5]))
#define POS_VALID(T, p) (0 <= g_pos[p] && g_pos[p] < LM->n && (T)->Orbitals.d[p] < SM_orb(g_pos[p]) && (T)->Spins.d[p] < SM_spin(g_pos[p]))
/* every operator position < upto refers to a known site and to an orbital / spin inside that site's range */
#define VALID_UPTO(T, upto) (((upto) > 0 ==> POS_VALID(T, 0)) && ((upto) > 1 ==> POS_VALID(T, 1)) && ((upto) > 2 ==> POS_VALID(T, 2)) && \
                             ((upto) > 3 ==> POS_VALID(T, 3)) && ((upto) > 4 ==> POS_VALID(T, 4)) && ((upto) > 5 ==> POS_VALID(T, 5)))
#define LT_G (self->Terms->Terms.g)
//@maythrow Lattice_addTerm Lattice_getSite
//@function Pomerol::Lattice::addTerm(Pomerol::Lattice::Term const*) as Lattice_addTerm
//@contract
__CPROVER_requires(__CPROVER_is_fresh(self, sizeof(*self)) && __CPROVER_is_fresh(self->Terms, sizeof(*self->Terms)) && SiteMap_wf_nosums(LM))
__CPROVER_requires(__CPROVER_is_fresh(T, sizeof(*T)) && TERM_WF(T) && !VERIF_thrown && g_newterm_calls == 0 && LT_G.second.size < 1000000000UL)
__CPROVER_requires(G_POS_DEF(T))
__CPROVER_assigns(VERIF_thrown, self->Terms->Terms, self->Terms->MaxTermOrder, g_newterm, g_newterm_calls)
/* C20: rejected with an exception iff some operator refers to an unknown site or to an orbital / spin outside the site's range */
__CPROVER_ensures(VERIF_thrown == !VALID_UPTO(T, T->N))
/* ... and then the lattice is unchanged; zero-amplitude terms are ignored */
__CPROVER_ensures((VERIF_thrown || T->Value == 0.0) ==> (g_newterm_calls == 0 && self->Terms->Terms.gpresent == __CPROVER_old(self->Terms->Terms.gpresent) && LT_G.second.size == __CPROVER_old(LT_G.second.size) &&
     LT_G.second.gelem == __CPROVER_old(LT_G.second.gelem) && self->Terms->MaxTermOrder == __CPROVER_old(self->Terms->MaxTermOrder)))
/* otherwise exactly one term, equal to the argument, is appended to the list of its order */
__CPROVER_ensures((!VERIF_thrown && T->Value != 0.0) ==> (g_newterm_calls == 1 && TERM_EQ(g_newterm, *T) &&
     self->Terms->MaxTermOrder == (__CPROVER_old(self->Terms->MaxTermOrder) < T->N ? T->N : __CPROVER_old(self->Terms->MaxTermOrder))))
__CPROVER_ensures((!VERIF_thrown && T->Value != 0.0 && T->N == LT_G.first) ==> (self->Terms->Terms.gpresent && LT_G.second.size == (__CPROVER_old(self->Terms->Terms.gpresent) ? __CPROVER_old(LT_G.second.size) : 0UL) + 1 &&
     LT_G.second.gelem == (LT_G.second.gp == LT_G.second.size - 1 ? &g_newterm : __CPROVER_old(LT_G.second.gelem))))
__CPROVER_ensures((!VERIF_thrown && T->N != LT_G.first) ==> (self->Terms->Terms.gpresent == __CPROVER_old(self->Terms->Terms.gpresent) && LT_G.second.size == __CPROVER_old(LT_G.second.size) && LT_G.second.gelem == __CPROVER_old(LT_G.second.gelem)))
//@loop 1
__CPROVER_assigns(i, VERIF_thrown)
__CPROVER_loop_invariant(i <= N && N == T->N && !VERIF_thrown && VALID_UPTO(T, i))
__CPROVER_decreases(N - i)
//@end
//@harness h_Lattice_addTerm enforce=Lattice_addTerm replace=Lattice_TermStorage_addTerm props=C20 min_obl=2144 reach=4 objbits=8 timeout=90
void h_Lattice_addTerm(void) { struct Lattice *l; struct Lattice_Term *t; Lattice_addTerm(l, t); if (VERIF_thrown) REACH("thrown"); else if (g_newterm_calls) REACH("stored"); else REACH("ignored"); REACH("exit"); }

//@function Pomerol::Lattice::getSite(std::__cxx11::basic_string<char, std::char_traits<char>, std::allocator<char> > const&) const as Lattice_getSite
//@contract
__CPROVER_requires(__CPROVER_is_fresh(self, sizeof(*self)) && SiteMap_wf_nosums(LM) && !VERIF_thrown)
/* the label looked up is the ghost key */
__CPROVER_requires(Label == LM->glabel)
__CPROVER_assigns(VERIF_thrown)
/* C20: returns the site that was added under that label, fails for an unknown label */
__CPROVER_ensures(VERIF_thrown == (LM->gk < 0))
__CPROVER_ensures(!VERIF_thrown ==> __CPROVER_return_value == &SM_gsite)
//@end
//@harness h_Lattice_getSite enforce=Lattice_getSite props=C20 min_obl=284 reach=3 objbits=8 timeout=60
void h_Lattice_getSite(void) { struct Lattice *l; label_t lab; Lattice_getSite(l, lab); if (VERIF_thrown) REACH("thrown"); else REACH("found"); REACH("exit"); }

/* ---- read accessors: getTermStorage() is the lattice's own term storage, getSiteMap() its own site map (IndexClassification and
 * IndexHamiltonian read the lattice through these two); nothing is written. */
//@function Pomerol::Lattice::getTermStorage() const as Lattice_getTermStorage
//@contract
__CPROVER_requires(__CPROVER_is_fresh(self, sizeof(*self)))
__CPROVER_assigns()
__CPROVER_ensures(__CPROVER_return_value == self->Terms)
//@end
//@harness h_Lattice_getTermStorage enforce=Lattice_getTermStorage props=C20 min_obl=10 reach=1 objbits=8 timeout=60
void h_Lattice_getTermStorage(void) { struct Lattice *l; Lattice_getTermStorage(l); REACH("exit"); }
//@function Pomerol::Lattice::getSiteMap[abi:cxx11]() const as Lattice_getSiteMap
//@contract
__CPROVER_requires(__CPROVER_is_fresh(self, sizeof(*self)))
__CPROVER_assigns()
__CPROVER_ensures(__CPROVER_return_value == &self->Sites)
//@end
//@harness h_Lattice_getSiteMap enforce=Lattice_getSiteMap props=C20 min_obl=10 reach=1 objbits=8 timeout=60
void h_Lattice_getSiteMap(void) { struct Lattice *l; Lattice_getSiteMap(l); REACH("exit"); }

/* ---- addSite: compiled with -DSM_INSERT_MODEL (std::map operator[] as insertion cell, see stubs/sitemap.h) */
//@function Pomerol::Lattice::addSite(Pomerol::Lattice::Site*) as Lattice_addSite1
//@contract
__CPROVER_requires(__CPROVER_is_fresh(self, sizeof(*self)) && __CPROVER_is_fresh(S, sizeof(*S)) && SM_ins_calls == 0)
__CPROVER_assigns(SM_ins_slot, SM_ins_label, SM_ins_calls)
/* C20: the site is stored under its own label (one map cell is written: that of S->Label, with S) */
__CPROVER_ensures(SM_ins_calls == 1 && SM_ins_label == S->Label && SM_ins_slot == S)
//@end
//@function Pomerol::Lattice::addSite(std::__cxx11::basic_string<char, std::char_traits<char>, std::allocator<char> > const&, unsigned short, unsigned short) as Lattice_addSite3
//@contract
__CPROVER_requires(__CPROVER_is_fresh(self, sizeof(*self)) && SM_ins_calls == 0 && g_newsite_calls == 0)
__CPROVER_assigns(SM_ins_slot, SM_ins_label, SM_ins_calls, g_newsite, g_newsite_calls)
/* a new Site{Label, orbitals, spins} is stored under Label */
__CPROVER_ensures(SM_ins_calls == 1 && SM_ins_label == Label && SM_ins_slot == &g_newsite && g_newsite_calls == 1)
__CPROVER_ensures(g_newsite.Label == Label && g_newsite.OrbitalSize == orbitals && g_newsite.SpinSize == spins)
//@end
//@harness h_Lattice_addSite1 enforce=Lattice_addSite1 props=C20 min_obl=43 reach=1 objbits=8 defs=-DSM_INSERT_MODEL timeout=60
void h_Lattice_addSite1(void) { struct Lattice *l; struct Lattice_Site *s; Lattice_addSite1(l, s); REACH("exit"); }
//@harness h_Lattice_addSite3 enforce=Lattice_addSite3 props=C20 min_obl=61 reach=1 objbits=8 defs=-DSM_INSERT_MODEL timeout=60
void h_Lattice_addSite3(void) { struct Lattice *l; label_t lab; unsigned short o, s; Lattice_addSite3(l, lab, o, s); REACH("exit"); }

/* MUTATION RECORD (tools/try_mutant.py, src/pomerol/Lattice.cpp; all killed by a named obligation):
 *  M1 getSite `it1==end` -> `it1!=end` (= the pre-fix tree, git a5d1f0c^)   Lattice_getSite.postcondition.1/.2 + "iterator dereferenced only before end()"
 *  M2 addTerm spin check `>=` -> `>`                                        Lattice_addTerm.loop_invariant_step.2
 *  M3 addTerm orbital compared with SpinSize                                Lattice_addTerm.postcondition.1, loop_invariant_step.2
 *  M4 addTerm zero-amplitude filter dropped                                 Lattice_addTerm.postcondition.2
 *  M5 addTerm validation loop starts at 1                                   Lattice_addTerm.postcondition.1, loop_invariant_base.2
 *  M6 TermStorage::addTerm MaxTermOrder = min                               Lattice_TermStorage_addTerm.postcondition.5
 *  M7 TermStorage::addTerm stores under Terms[MaxTermOrder]                 Lattice_TermStorage_addTerm.postcondition.3/.4
 *  M8 TermStorage::getTerms test inverted                                   Lattice_TermStorage_getTerms.postcondition.1/.2
 *  M9 Term copy constructor copies Orbitals into Spins                      Lattice_TermStorage_addTerm.postcondition.1
 *  M10 addSite(label,orb,spin) swaps orbitals/spins                         Lattice_addSite3.postcondition.2
 * NOT under contract: Lattice copy constructor (shallow copy of the term lists; TermStorage's implicit copy constructor is not extracted). */
