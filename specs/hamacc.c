/* HamiltonianPart: reduce(ActualCutoff), getEigenState(state), getMatrix(), getBlockNumber(), getQuantumNumbers();
 * Hamiltonian: reduce(Cutoff), getGroundEnergy().                                                             Property C03.
 *
 * Documentation (include/pomerol/HamiltonianPart.h, Hamiltonian.h): H "after diagonalization ... stores the eigenfunctions" (C03
 * anchors: eigenvectors are the COLUMNS of H); getEigenState "Return the eigenstate of the H matrix. \param[in] Number of
 * eigenvalue"; getMatrix "Return the hamiltonian part matrix"; getBlockNumber "Return the BlockNumber associated with the Hamiltonian
 * part"; getQuantumNumbers "Return the QuantumNumbers associated with the Hamiltonian part"; GroundEnergy "A value of the ground energy";
 * reduce: HamiltonianPart.h only says "// Useless now", Hamiltonian.h nothing.  The contract of reduce states the evident intent
 * (message "Performing EV cutoff at <Cutoff> level", argument GroundEnergy+Cutoff): keep the eigenvalues <= cutoff.
 *
 * Proved
 *   getEigenState(k): throws exStatusMismatch unless computed; otherwise a vector with H.rows() coefficients whose coefficient i
 *       (ghost i) is H(i,k): column k.  The column number is NOT range-checked by the code (Eigen checks only without NDEBUG):
 *       k < H.cols() is the caller's obligation (requires).
 *   getMatrix() == H; getQuantumNumbers() == QN; getGroundEnergy() == GroundEnergy; nothing written.
 *   getBlockNumber(): throws unless S is computed; == Block, from the class invariant QN == S.getQuantumNumbers(Block) (constructor)
 *       and C07's "the two maps block <-> quantum numbers are inverse to each other" (ASSUMED in the stub of S.getBlockNumber).
 *   Hamiltonian::reduce(Cutoff): HamiltonianPart::reduce(GroundEnergy + Cutoff) is called on parts[0], parts[1], ... in this order,
 *       each part exactly once, with exactly that cutoff; nothing else is written.
 *   HamiltonianPart::reduce(c) on a computed part with ascending eigenvalues (solver contract A3): returns true iff the lowest
 *       eigenvalue is <= c.  If true: m = number of eigenvalues <= c is kept (m >= 1): Eigenvalues has m coefficients, coefficient k
 *       is the old coefficient k (<= c), the first dropped one (if any) is > c -- with the ascending order: exactly the eigenvalues
 *       <= c are kept --; H becomes m x m with H(i,j) unchanged for i,j < m (top-left corner: the kept eigenvectors are CUT to their
 *       first m Fock components -- the header promises nothing else).  If false NOTHING is changed: a block lying entirely above the
 *       cutoff keeps ALL its eigenvalues ("keep exactly the eigenvalues <= cutoff" is false for such blocks).
 *   DEFECT D16 (found by h_HP_reduce; repaired in /repo by fix: a9e122a, `.eval()` on both right-hand sides; the harness passes on the repaired tree): `Eigenvalues = Eigenvalues.head(counter)` and
 *       `H = H.topLeftCorner(counter,counter)` assign a block of the destination to the destination.  Eigen assumes NO aliasing for
 *       Block expressions and resizes (reallocates) the destination first whenever counter < size: the copy then reads the freed
 *       storage.  Obligation "Eigen dense assignment: the source block does not live in the destination's storage when the
 *       destination is resized".  Native replay: /verif/replay/ham_reduce.cpp (ASan: heap-use-after-free in HamiltonianPart::reduce).
 *       Proposed patch: `Eigenvalues = Eigenvalues.head(counter).eval(); H = H.topLeftCorner(counter,counter).eval();`
 *       (or conservativeResize) -- applied.
 */
#include "../stubs/common.h"
#include "../stubs/dense.h"
//@include types_common.inc
//@type (Pomerol::)?RealVectorType|(Pomerol::)?VectorType|Eigen::Matrix<double, -1, 1(, 0)?(, -1, 1)?> => RealVector ptr
//@type (Pomerol::)?(Real)?MatrixType|Eigen::Matrix<double, -1, -1(, 1)?(, -1, -1)?> => RealMatrix ptr
//@type (Pomerol::)?QuantumNumbers|(Pomerol::)?Symmetrizer::QuantumNumbers => QNum val
//@type (const )?Eigen::(Vector)?Block<.*> => DBlock val
//@type std::vector<boost::shared_ptr<(Pomerol::)?HamiltonianPart> ?.*> => PartVec ptr
//@type boost::shared_ptr<(Pomerol::)?HamiltonianPart> => PartPtr ptr
//@record Pomerol::BlockNumber => BlockNumber val
//@rename RealVector_assign => RealVector_assign_block
//@rename RealMatrix_assign => RealMatrix_assign_block
//@rename RealVector_ctor1 => RealVector_from_block
//@tu src/pomerol/HamiltonianPart.cpp
//@enum ComputableObject::
typedef struct BlockNumber { int number; } BlockNumber;
typedef struct QNum { long id; } QNum;
#define BlockNumber_ctor1(n) ((BlockNumber){ (n) })
#define BlockNumber_postinc(b) ((b)->number++, (b))
#define BlockNumber_conv_int(b) ((b)->number)
/* ^ BlockNumber's inline members (StatesClassification.h:124-132), mirrored */

/* ---- StatesClassification::getBlockNumber(QuantumNumbers): callee contract (specs/states.c, qnumbers.c) */
struct StatesClassification { unsigned int Status; int nblocks; };
long __CPROVER_uninterpreted_qn_of_block(int b);      /* BlockToQuantum */
int  __CPROVER_uninterpreted_block_of_qn(long id);    /* QuantumToBlock, -1 = ERROR_BLOCK_NUMBER */
static inline BlockNumber StatesClassification_getBlockNumber(struct StatesClassification *S, QNum q)
{
  BlockNumber b; b.number = __CPROVER_uninterpreted_block_of_qn(q.id);
  if (S->Status < Computed) { VERIF_THROW("exStatusMismatch"); return b; }
  __CPROVER_assume(-1 <= b.number && b.number < S->nblocks);
  /* ASSUMED (C07): StatesClassification::compute() enters (qn -> b) and (b -> qn) together: the maps are inverse to each other.
   * Instantiated at the block whose quantum numbers these are. */
  if (0 <= b.number) __CPROVER_assume(__CPROVER_uninterpreted_qn_of_block(b.number) == q.id);
  return b;
}

/* ---- Eigen blocks of a dense object (v.head(n), m.topLeftCorner(r,c), m.col(j)): a Block keeps a POINTER into the storage of its
 * argument (Eigen/src/Core/Block.h, MapBase: m_data).  ASSERTED: the block lies inside the object. */
typedef struct DBlock { double *base; long r0, c0, rows, cols; _Bool vec; /* block of a vector (linear storage) */ } DBlock;
static inline DBlock dblock_head(RealVector *v, unsigned long n)
{ DBlock b = { v->data, 0, 0, (long)n, 1, 1 };
  __CPROVER_assert(n <= (unsigned long)v->size, "Eigen head(n): n <= size()"); return b; }
static inline DBlock dblock_tlc(RealMatrix *m, unsigned long r, unsigned long c)
{ DBlock b = { m->data, 0, 0, (long)r, (long)c };
  __CPROVER_assert(r <= (unsigned long)m->rows && c <= (unsigned long)m->cols, "Eigen topLeftCorner(r,c): inside the matrix"); return b; }
static inline DBlock dblock_col(RealMatrix *m, long j)
{ DBlock b = { m->data, 0, j, m->rows, 1 };
  __CPROVER_assert(0 <= j && j < m->cols, "Eigen col(j): column inside the matrix"); return b; }
#define RealVector_head(v, n) (*(DBlock[1]){ dblock_head((v), (n)) })
#define RealMatrix_topLeftCorner(m, r, c) (*(DBlock[1]){ dblock_tlc((m), (r), (c)) })
#define RealMatrix_col(m, j) (*(DBlock[1]){ dblock_col((m), (j)) })
long g_k, g_i, g_j;      /* ghost positions: eigenvalue number; matrix cell */
/* block.eval(): "Returns the matrix or vector to which this expression evaluates" (Eigen DenseBase::eval) -- a NEW plain object holding
 * copies of the block's coefficients (kept for the ghost positions).  Modelled as a block covering the whole of that fresh storage. */
static inline DBlock dblock_eval_f(DBlock *b)
{
  DBlock r = { (double *)0, 0, 0, b->rows, b->cols, b->vec };
  if (b->vec) {
    r.base = malloc((size_t)b->rows * 8UL);
    __CPROVER_assume(r.base != (double *)0);
    if (0 <= g_k && g_k < b->rows) r.base[g_k] = b->base[b->r0 + g_k];
  } else {
    r.base = malloc(DENSE_BYTES(b->rows));
    __CPROVER_assume(r.base != (double *)0);
    if (0 <= g_i && g_i < b->rows && 0 <= g_j && g_j < b->cols) r.base[DENSE_IDX(g_i, g_j)] = b->base[DENSE_IDX(b->r0 + g_i, b->c0 + g_j)];
  }
  return r;
}
#define DBlock_eval(b) (*(DBlock[1]){ dblock_eval_f(b) })
/* `dst = block;`  Eigen (AssignEvaluator.h, call_assignment_no_alias): resize_if_allowed(dst, src) FIRST -- a dynamic object whose size
 * changes is reallocated (DenseStorage::resize frees the old storage) --, THEN the coefficient-wise copy from the block.
 * ASSERTED: when the destination is resized the block does not point into the destination's (old) storage.
 * MODEL after that point: the values are copied as they were before the assignment (= what `.eval()` would give); kept for the
 * ghost positions, every other coefficient of the new storage arbitrary. */
static inline void RealVector_assign_block(RealVector *dst, DBlock *b)
{
  double gv = (0 <= g_k && g_k < b->rows) ? b->base[b->r0 + g_k] : 0.0;
  if (dst->size != b->rows) {
#ifndef HAMACC_NO_ALIAS_CHECK
    __CPROVER_assert(b->base != dst->data, "Eigen dense assignment: the source block does not live in the destination's storage when the destination is resized (v = v.head(n))");
#endif
    dst->size = b->rows;
    dst->data = malloc((size_t)b->rows * 8UL);
    __CPROVER_assume(dst->data != (double *)0);
  }
  if (0 <= g_k && g_k < b->rows) dst->data[g_k] = gv;
}
static inline void RealMatrix_assign_block(RealMatrix *dst, DBlock *b)
{
  _Bool in = 0 <= g_i && g_i < b->rows && 0 <= g_j && g_j < b->cols;
  double gv = in ? b->base[DENSE_IDX(b->r0 + g_i, b->c0 + g_j)] : 0.0;
  if (dst->rows != b->rows || dst->cols != b->cols) {
#ifndef HAMACC_NO_ALIAS_CHECK
    __CPROVER_assert(b->base != dst->data, "Eigen dense assignment: the source block does not live in the destination's storage when the destination is resized (m = m.topLeftCorner(r,c))");
#endif
    dst->rows = b->rows; dst->cols = b->cols;
    dst->data = malloc(DENSE_BYTES(b->rows));
    __CPROVER_assume(dst->data != (double *)0);
  }
  if (in) dst->data[DENSE_IDX(g_i, g_j)] = gv;
}
/* VectorType v(block): a new vector with the block's coefficients (column block: one coefficient per row) */
static inline RealVector RealVector_from_block(DBlock *b)
{
  RealVector v; v.size = b->rows;
  v.data = malloc((size_t)b->rows * 8UL);
  __CPROVER_assume(v.data != (double *)0);
  if (0 <= g_i && g_i < b->rows) v.data[g_i] = b->base[DENSE_IDX(b->r0 + g_i, b->c0)];
  return v;
}

//@struct Pomerol::HamiltonianPart only=Status,S,Block,QN,H,Eigenvalues embed=S
#define HP_WF(self) (__CPROVER_is_fresh(self, sizeof(*self)) && !VERIF_thrown && self->Status <= Computed && \
   RealMatrix_wf(&self->H, DENSE_MAXDIM) && self->H.rows == self->H.cols && self->H.rows >= 1 && \
   RealVector_wf(&self->Eigenvalues, DENSE_MAXDIM) && (self->Status >= Computed ==> self->Eigenvalues.size == self->H.rows))

/* ------------------------------------------------------------------------------------------ HamiltonianPart::reduce */
#define EV(self, k) ((self)->Eigenvalues.data[(k)])
//@function Pomerol::HamiltonianPart::reduce(double) as HP_reduce
//@contract
__CPROVER_requires(HP_WF(self) && ActualCutoff == ActualCutoff)
/* ghost positions inside the (old) vector / matrix */
__CPROVER_requires(0 <= g_k && g_k < self->Eigenvalues.size && 0 <= g_i && g_i < self->H.rows && 0 <= g_j && g_j < self->H.cols)
/* type invariant of a computed part: eigenvalues ascending, not NaN (solver contract A3/A4), instantiated at the ghost position */
__CPROVER_requires(self->Status >= Computed ==> EV(self, 0) <= EV(self, g_k))
__CPROVER_assigns(VERIF_thrown; self->Status >= Computed: self->Eigenvalues.size, self->Eigenvalues.data, self->H.rows, self->H.cols, self->H.data,
                  __CPROVER_object_whole(self->Eigenvalues.data), __CPROVER_object_whole(self->H.data))
__CPROVER_ensures(VERIF_thrown == (self->Status < Computed))
/* true iff some eigenvalue is <= cutoff (the lowest one) */
__CPROVER_ensures(!VERIF_thrown ==> (__CPROVER_return_value == (__CPROVER_old(EV(self, 0)) <= ActualCutoff)))
/* nothing kept below the old size is above the cutoff, values and order preserved */
__CPROVER_ensures((!VERIF_thrown && __CPROVER_return_value) ==> (1 <= self->Eigenvalues.size && self->Eigenvalues.size <= __CPROVER_old(self->Eigenvalues.size) &&
                   self->H.rows == self->Eigenvalues.size && self->H.cols == self->Eigenvalues.size))
__CPROVER_ensures((!VERIF_thrown && __CPROVER_return_value && g_k < self->Eigenvalues.size) ==> (D_SAME(EV(self, g_k), __CPROVER_old(EV(self, g_k))) && EV(self, g_k) <= ActualCutoff))
/* ... and the first dropped eigenvalue (read from the old storage) is above it: with the ascending order exactly the eigenvalues <= cutoff are kept */
__CPROVER_ensures((!VERIF_thrown && __CPROVER_return_value && self->Eigenvalues.size < __CPROVER_old(self->Eigenvalues.size)) ==>
                  !(__CPROVER_old(self->Eigenvalues.data)[self->Eigenvalues.size] <= ActualCutoff))
/* top-left corner of H */
__CPROVER_ensures((!VERIF_thrown && __CPROVER_return_value && g_i < self->H.rows && g_j < self->H.cols) ==>
                  D_SAME(self->H.data[DENSE_IDX(g_i, g_j)], __CPROVER_old(self->H.data[DENSE_IDX(g_i, g_j)])))
/* false: nothing changes */
__CPROVER_ensures((!VERIF_thrown && !__CPROVER_return_value) ==> (self->Eigenvalues.size == __CPROVER_old(self->Eigenvalues.size) && self->Eigenvalues.data == __CPROVER_old(self->Eigenvalues.data) &&
                   self->H.rows == __CPROVER_old(self->H.rows) && self->H.cols == __CPROVER_old(self->H.cols) && self->H.data == __CPROVER_old(self->H.data)))
//@loop 1
__CPROVER_assigns(counter)
__CPROVER_loop_invariant(counter <= (unsigned long)self->Eigenvalues.size)
__CPROVER_loop_invariant((0 <= g_k && (unsigned long)g_k < counter) ==> EV(self, g_k) <= ActualCutoff)
__CPROVER_decreases((unsigned long)self->Eigenvalues.size - counter)
//@end
//@harness h_HP_reduce enforce=HP_reduce props=C03 min_obl=914 reach=3 timeout=240 defs=-DVERIF_FP_IEEE
void h_HP_reduce(void) { struct HamiltonianPart *p; double c; _Bool r = HP_reduce(p, c); if (VERIF_thrown) REACH("thrown"); else if (r) REACH("reduced"); else REACH("unchanged"); }

/* ------------------------------------------------------------------------------------------ accessors of HamiltonianPart */
//@function Pomerol::HamiltonianPart::getEigenState(unsigned long) const as HP_getEigenState
//@contract
__CPROVER_requires(HP_WF(self))
/* the column number is not checked by the code: the caller's obligation */
__CPROVER_requires(self->Status >= Computed ==> state < (unsigned long)self->H.cols)
__CPROVER_assigns(VERIF_thrown)
__CPROVER_ensures(VERIF_thrown == (self->Status < Computed))
__CPROVER_ensures(!VERIF_thrown ==> __CPROVER_return_value.size == self->H.rows)
/* C03: eigenvector number `state` = column `state` of H */
__CPROVER_ensures((!VERIF_thrown && 0 <= g_i && g_i < self->H.rows) ==> D_SAME(__CPROVER_return_value.data[g_i], self->H.data[DENSE_IDX(g_i, (long)state)]))
//@end
//@harness h_HP_getEigenState enforce=HP_getEigenState props=C03 min_obl=233 reach=2 timeout=120
void h_HP_getEigenState(void) { struct HamiltonianPart *p; unsigned long s; HP_getEigenState(p, s); if (VERIF_thrown) REACH("thrown"); else REACH("vector"); }

//@function Pomerol::HamiltonianPart::getMatrix() const as HP_getMatrix
//@contract
__CPROVER_requires(__CPROVER_is_fresh(self, sizeof(*self)))
__CPROVER_assigns()
__CPROVER_ensures(__CPROVER_return_value == &self->H)
//@end
//@harness h_HP_getMatrix enforce=HP_getMatrix props=C03 min_obl=22 reach=1 timeout=60
void h_HP_getMatrix(void) { struct HamiltonianPart *p; HP_getMatrix(p); REACH("exit"); }

//@function Pomerol::HamiltonianPart::getQuantumNumbers() const as HP_getQuantumNumbers
//@contract
__CPROVER_requires(__CPROVER_is_fresh(self, sizeof(*self)))
__CPROVER_assigns()
__CPROVER_ensures(__CPROVER_return_value.id == self->QN.id)
//@end
//@harness h_HP_getQuantumNumbers enforce=HP_getQuantumNumbers props=C03 min_obl=33 reach=1 timeout=60
void h_HP_getQuantumNumbers(void) { struct HamiltonianPart *p; HP_getQuantumNumbers(p); REACH("exit"); }

//@maythrow StatesClassification_getBlockNumber
//@function Pomerol::HamiltonianPart::getBlockNumber() const as HP_getBlockNumber
//@contract
__CPROVER_requires(__CPROVER_is_fresh(self, sizeof(*self)) && !VERIF_thrown && self->S.Status <= Computed && self->S.nblocks >= 1)
/* class invariant (constructor): the part of an existing block, QN = S.getQuantumNumbers(Block) */
__CPROVER_requires(0 <= self->Block.number && self->Block.number < self->S.nblocks && self->QN.id == __CPROVER_uninterpreted_qn_of_block(self->Block.number))
/* C07: QuantumToBlock has an entry for the quantum numbers of every block */
__CPROVER_requires(__CPROVER_uninterpreted_block_of_qn(self->QN.id) >= 0)
/* C07 (partition): two blocks never have the same quantum numbers */
__CPROVER_requires(__CPROVER_uninterpreted_qn_of_block(__CPROVER_uninterpreted_block_of_qn(self->QN.id)) == self->QN.id ==> __CPROVER_uninterpreted_block_of_qn(self->QN.id) == self->Block.number)
__CPROVER_assigns(VERIF_thrown)
__CPROVER_ensures(VERIF_thrown == (self->S.Status < Computed))
__CPROVER_ensures(!VERIF_thrown ==> __CPROVER_return_value.number == self->Block.number)
//@end
//@harness h_HP_getBlockNumber enforce=HP_getBlockNumber props=C03 min_obl=112 reach=2 timeout=60
void h_HP_getBlockNumber(void) { struct HamiltonianPart *p; HP_getBlockNumber(p); if (VERIF_thrown) REACH("thrown"); else REACH("block"); }

/* ------------------------------------------------------------------------------------------ Hamiltonian */
//@tu src/pomerol/StatesClassification.cpp
//@function Pomerol::BlockNumber::operator<(Pomerol::BlockNumber const&) const as BlockNumber_lt
//@end
//@tu src/pomerol/Hamiltonian.cpp
typedef struct PartPtr { struct HamiltonianPart *px; } PartPtr;
typedef struct PartVec { unsigned long size; PartPtr *data; } PartVec;
#define HV_MAX 1000000UL
#define PartVec_size(v) ((v)->size)
static inline PartPtr *PartVec_at(PartVec *v, unsigned long i)
{ __CPROVER_assert(i < v->size, "std::vector<shared_ptr<HamiltonianPart>>::operator[]: index inside the vector"); return &v->data[i]; }
static inline struct HamiltonianPart *PartPtr_arrow(PartPtr *p) { return p->px; }
//@struct Pomerol::Hamiltonian only=Status,parts,GroundEnergy
unsigned long g_ncalls, g_hits, g_idx; double g_cut;   /* monitor of HamiltonianPart::reduce calls; ghost ordinal; expected cutoff */
static inline _Bool ham_reduce_monitor(struct HamiltonianPart *p, double cutoff, PartPtr *data, unsigned long n)
{
  __CPROVER_assert(g_ncalls < n && p == data[g_ncalls].px, "C03: the k-th call reduces the k-th block");
  __CPROVER_assert(D_SAME(cutoff, g_cut), "C03: every block is cut at GroundEnergy + Cutoff");
  if (g_ncalls == g_idx) { g_hits++; REACH("reduce-ghost-block"); }
  g_ncalls++;
  return nondet_bool();
}
#define HamiltonianPart_reduce(p, c) ham_reduce_monitor((p), (c), self->parts.data, self->parts.size)
//@function Pomerol::Hamiltonian::reduce(double) as Ham_reduce
//@contract
__CPROVER_requires(__CPROVER_is_fresh(self, sizeof(*self)) && self->parts.size <= HV_MAX && __CPROVER_is_fresh(self->parts.data, self->parts.size * sizeof(PartPtr)))
__CPROVER_requires(g_ncalls == 0 && g_hits == 0 && g_idx < self->parts.size && D_SAME(g_cut, D_ADD(self->GroundEnergy, Cutoff)))
__CPROVER_assigns(g_ncalls, g_hits)
__CPROVER_ensures(g_ncalls == self->parts.size && g_hits == 1)
//@loop 1
__CPROVER_assigns(CurrentBlock, g_ncalls, g_hits)
__CPROVER_loop_invariant(0 <= CurrentBlock.number && CurrentBlock.number <= NumberOfBlocks.number && NumberOfBlocks.number == (int)self->parts.size &&
                         g_ncalls == (unsigned long)CurrentBlock.number && g_hits == ((unsigned long)CurrentBlock.number > g_idx ? 1UL : 0UL))
__CPROVER_decreases(NumberOfBlocks.number - CurrentBlock.number)
//@end
//@harness h_Ham_reduce enforce=Ham_reduce props=C03 min_obl=172 reach=2 timeout=120
void h_Ham_reduce(void) { struct Hamiltonian *h; double c; Ham_reduce(h, c); REACH("exit"); }

//@function Pomerol::Hamiltonian::getGroundEnergy() const as Ham_getGroundEnergy
//@contract
__CPROVER_requires(__CPROVER_is_fresh(self, sizeof(*self)))
__CPROVER_assigns()
__CPROVER_ensures(D_SAME(__CPROVER_return_value, self->GroundEnergy))
//@end
//@harness h_Ham_getGroundEnergy enforce=Ham_getGroundEnergy props=C03 min_obl=33 reach=1 timeout=60
void h_Ham_getGroundEnergy(void) { struct Hamiltonian *h; Ham_getGroundEnergy(h); REACH("exit"); }

/* ---- mutation record (tools/try_mutant.py; every mutant KILLED unless noted) -----------------------------------------------------
 * h_HP_getEigenState:   H.col(state) -> H.col(0)                               HP_getEigenState.postcondition.3
 *                       Status guard removed                                   postcondition.1, dblock_col.assertion.1
 * h_HP_getBlockNumber:  S.getBlockNumber(QN) -> BlockNumber(0)                 postcondition.1/.2
 *                       (second mutant S.getBlockNumber(S.getQuantumNumbers(Block)): UNDECIDED, callee not modelled -- it is equivalent anyway)
 * h_HP_reduce:          Eigenvalues[counter]<=ActualCutoff -> >=               HP_reduce.postcondition.2/.5, loop_invariant_step.2
 *                       <= -> <                                                postcondition.2/.5
 *                       Eigenvalues.head(counter) -> head(1)                   postcondition.3/.5
 *                       `H = H.topLeftCorner(counter,counter);` removed        postcondition.3
 * h_HP_reduce:          failed before the repair D16 (a9e122a) on RealVector_assign_block.assertion.1, RealMatrix_assign_block.assertion.1
 * h_Ham_reduce:         reduce(GroundEnergy+Cutoff) -> reduce(Cutoff)          ham_reduce_monitor.assertion.2
 *                       parts[CurrentBlock] -> parts[0]                        ham_reduce_monitor.assertion.1
 * h_Ham_getGroundEnergy: GroundEnergy -> -GroundEnergy                         postcondition.1
 * h_HP_getMatrix / h_HP_getQuantumNumbers: single field returns; the attempted mutant (S.getQuantumNumbers(0)) is UNDECIDED (callee not modelled)
 */
