/* C13 helpers that had no contract:
 *   IndexCombination4::operator==, operator!=                  (src/pomerol/Index.cpp)
 *   Permutation3::operator==, !=   Permutation4::operator==, != (src/pomerol/Misc.cpp)
 *   TwoParticleGF::getPermutationNumber, getIndex, isVanishing  (src/pomerol/TwoParticleGF.cpp)
 * Post-conditions from the header documentation: an IndexCombination4 is the quadruple of its four indices; a Permutation3/4
 * is "a permutation of 3 (4) elements" with its sign: two of them are equal iff they map every position alike and have the
 * same sign; permutations3[] lists all six permutations; getIndex(Position) is the index of the Position-th operator of
 * <T c c c^+ c^+>; isVanishing() reports the flag prepare() computed.  Mutation record at the end. */
#include "../stubs/common.h"
//@include types_common.inc
//@record Pomerol::IndexCombination4 => IC4 val
//@record Pomerol::Permutation3 => Permutation3 val
//@record Pomerol::Permutation4 => Permutation4 val
//@record Pomerol::AnnihilationOperator => struct FieldOperator ptr
//@record Pomerol::CreationOperator => struct FieldOperator ptr
typedef struct IC4 IC4;
typedef struct Permutation3 Permutation3;
typedef struct Permutation4 Permutation4;
//@tu src/pomerol/Index.cpp
//@struct Pomerol::IndexCombination4
//@tu src/pomerol/Misc.cpp
//@struct Pomerol::Permutation3
//@struct Pomerol::Permutation4
//@global permutations3

/* ---- SPEC */
#define IC4_SAME(a, b) ((a).Index1 == (b).Index1 && (a).Index2 == (b).Index2 && (a).Index3 == (b).Index3 && (a).Index4 == (b).Index4)
/* TYPE INVARIANT of a Permutation3 / Permutation4 value: perm[] is a permutation of 0..n-1 */
static inline _Bool P3_wf(Permutation3 p)
{ return p.perm[0] < 3 && p.perm[1] < 3 && p.perm[2] < 3 && p.perm[0] != p.perm[1] && p.perm[0] != p.perm[2] && p.perm[1] != p.perm[2]; }
static inline _Bool P4_wf(Permutation4 p)
{ return p.perm[0] < 4 && p.perm[1] < 4 && p.perm[2] < 4 && p.perm[3] < 4 && p.perm[0] != p.perm[1] && p.perm[0] != p.perm[2] &&
         p.perm[0] != p.perm[3] && p.perm[1] != p.perm[2] && p.perm[1] != p.perm[3] && p.perm[2] != p.perm[3]; }
static inline _Bool P3_same(Permutation3 a, Permutation3 b)
{ return a.perm[0] == b.perm[0] && a.perm[1] == b.perm[1] && a.perm[2] == b.perm[2] && a.sign == b.sign; }
static inline _Bool P4_same(Permutation4 a, Permutation4 b)
{ return a.perm[0] == b.perm[0] && a.perm[1] == b.perm[1] && a.perm[2] == b.perm[2] && a.perm[3] == b.perm[3] && a.sign == b.sign; }

//@tu src/pomerol/Index.cpp
//@function Pomerol::IndexCombination4::operator==(Pomerol::IndexCombination4 const&) const as IC4_eq
//@contract
__CPROVER_requires(__CPROVER_is_fresh(self, sizeof(*self)))
__CPROVER_assigns()
__CPROVER_ensures(__CPROVER_return_value == IC4_SAME(*self, rhs))
//@end
//@harness h_IC4_eq enforce=IC4_eq props=C13 reach=3 timeout=60 min_obl=68
void h_IC4_eq(void)
{
  IC4 *a; IC4 b;
  _Bool r = IC4_eq(a, b);
  REACH("exit");
  if (r) REACH("equal"); else REACH("different");
}
//@rename IC4_eq => IC4_eq
//@function Pomerol::IndexCombination4::operator!=(Pomerol::IndexCombination4 const&) const as IC4_ne
//@contract
__CPROVER_requires(__CPROVER_is_fresh(self, sizeof(*self)))
__CPROVER_assigns()
__CPROVER_ensures(__CPROVER_return_value == !IC4_SAME(*self, rhs))
//@end
//@harness h_IC4_ne enforce=IC4_ne props=C13 reach=3 timeout=60 min_obl=68
void h_IC4_ne(void)
{
  IC4 *a; IC4 b;
  _Bool r = IC4_ne(a, b);
  REACH("exit");
  if (r) REACH("different"); else REACH("equal");
}

//@tu src/pomerol/Misc.cpp
//@function Pomerol::Permutation3::operator==(Pomerol::Permutation3 const&) const as Permutation3_eq
//@contract
__CPROVER_requires(__CPROVER_is_fresh(self, sizeof(*self)) && P3_wf(*self) && P3_wf(rhs))
__CPROVER_assigns()
__CPROVER_ensures(__CPROVER_return_value == P3_same(*self, rhs))
//@end
//@harness h_P3_eq enforce=Permutation3_eq props=C13 reach=3 timeout=60 min_obl=53
void h_P3_eq(void)
{
  Permutation3 *a; Permutation3 b;
  _Bool r = Permutation3_eq(a, b);
  REACH("exit");
  if (r) REACH("equal"); else REACH("different");
}
//@function Pomerol::Permutation3::operator!=(Pomerol::Permutation3 const&) const as Permutation3_ne
//@contract
__CPROVER_requires(__CPROVER_is_fresh(self, sizeof(*self)) && P3_wf(*self) && P3_wf(rhs))
__CPROVER_assigns()
__CPROVER_ensures(__CPROVER_return_value == !P3_same(*self, rhs))
//@end
//@harness h_P3_ne enforce=Permutation3_ne props=C13 reach=3 timeout=60 min_obl=53
void h_P3_ne(void)
{
  Permutation3 *a; Permutation3 b;
  _Bool r = Permutation3_ne(a, b);
  REACH("exit");
  if (r) REACH("different"); else REACH("equal");
}
//@function Pomerol::Permutation4::operator==(Pomerol::Permutation4 const&) const as Permutation4_eq
//@contract
__CPROVER_requires(__CPROVER_is_fresh(self, sizeof(*self)) && P4_wf(*self) && P4_wf(rhs))
__CPROVER_assigns()
__CPROVER_ensures(__CPROVER_return_value == P4_same(*self, rhs))
//@end
//@harness h_P4_eq enforce=Permutation4_eq props=C13 reach=3 timeout=60 min_obl=60
void h_P4_eq(void)
{
  Permutation4 *a; Permutation4 b;
  _Bool r = Permutation4_eq(a, b);
  REACH("exit");
  if (r) REACH("equal"); else REACH("different");
}
//@function Pomerol::Permutation4::operator!=(Pomerol::Permutation4 const&) const as Permutation4_ne
//@contract
__CPROVER_requires(__CPROVER_is_fresh(self, sizeof(*self)) && P4_wf(*self) && P4_wf(rhs))
__CPROVER_assigns()
__CPROVER_ensures(__CPROVER_return_value == !P4_same(*self, rhs))
//@end
//@harness h_P4_ne enforce=Permutation4_ne props=C13 reach=3 timeout=60 min_obl=60
void h_P4_ne(void)
{
  Permutation4 *a; Permutation4 b;
  _Bool r = Permutation4_ne(a, b);
  REACH("exit");
  if (r) REACH("different"); else REACH("equal");
}

/* ---- TwoParticleGF */
//@tu src/pomerol/TwoParticleGF.cpp
//@struct Pomerol::FieldOperator only=Index
//@struct Pomerol::TwoParticleGF only=C1,C2,CX3,CX4,Vanishing embed=C1,C2,CX3,CX4
//@tu src/pomerol/FieldOperator.cpp
//@function Pomerol::FieldOperator::getIndex() const as FieldOperator_getIndex
//@end
//@tu src/pomerol/TwoParticleGF.cpp
/* "Returns true, if GF is identical to zero": the flag prepare() leaves (specs/tpgf.c: Vanishing <=> no part was created) */
//@function Pomerol::TwoParticleGF::isVanishing() const as TwoParticleGF_isVanishing
//@contract
__CPROVER_requires(__CPROVER_is_fresh(self, sizeof(*self)))
__CPROVER_assigns()
__CPROVER_ensures(__CPROVER_return_value == self->Vanishing)
//@end
//@harness h_TPGF_isVanishing enforce=TwoParticleGF_isVanishing props=C13 reach=1 timeout=60 min_obl=33
void h_TPGF_isVanishing(void)
{
  struct TwoParticleGF *g;
  _Bool r = TwoParticleGF_isVanishing(g);
  REACH("exit");
}
/* "Returns the 'bit' (index) of one of operators C1, C2, CX3 or CX4 ... Zero-based number of the operator": position p selects
 * the p-th operator of <T c_{C1} c_{C2} c^+_{CX3} c^+_{CX4}>; any other position: std::logic_error */
//@function Pomerol::TwoParticleGF::getIndex(unsigned long) const as TwoParticleGF_getIndex
//@contract
__CPROVER_requires(__CPROVER_is_fresh(self, sizeof(*self)) && !VERIF_thrown)
__CPROVER_assigns(VERIF_thrown)
__CPROVER_ensures(VERIF_thrown == (Position > 3))
__CPROVER_ensures(!VERIF_thrown ==> __CPROVER_return_value == (Position == 0 ? self->C1.Index : Position == 1 ? self->C2.Index : Position == 2 ? self->CX3.Index : self->CX4.Index))
//@end
//@harness h_TPGF_getIndex enforce=TwoParticleGF_getIndex props=C13 reach=3 timeout=60 min_obl=61
void h_TPGF_getIndex(void)
{
  struct TwoParticleGF *g; unsigned long pos;
  VERIF_thrown = 0;
  unsigned int r = TwoParticleGF_getIndex(g, pos);
  REACH("exit");
  if (VERIF_thrown) REACH("rejected"); else REACH("accepted");
}
/* ---- GreensFunction::getIndex (C01; here because this file has the FieldOperator model with Index): "Returns the 'bit' (index) of the
 * operator C or CX": position 0 selects the annihilation operator C, position 1 the creation operator CX of <T c_i c^+_j>; any other
 * position: std::logic_error (the extraction uses the pinned build flags, -DNDEBUG: assert(0) is compiled out).  Nothing is written.
 * The declared return type is unsigned short while ParticleIndex is unsigned int: the result is the index modulo 2^16 -- the index itself for
 * every index below 65536 (Fock states are 64-bit words, so every index pomerol can classify is below 64).  The first version of this
 * contract demanded the untruncated index and failed for Index >= 65536: a contract that asks more than the declared type, corrected. */
//@tu src/pomerol/GreensFunction.cpp
//@struct Pomerol::GreensFunction only=C,CX embed=C,CX
//@function Pomerol::GreensFunction::getIndex(unsigned long) const as GreensFunction_getIndex
//@contract
__CPROVER_requires(__CPROVER_is_fresh(self, sizeof(*self)) && !VERIF_thrown)
__CPROVER_assigns(VERIF_thrown)
__CPROVER_ensures(VERIF_thrown == (Position > 1))
__CPROVER_ensures(!VERIF_thrown ==> __CPROVER_return_value == (unsigned short)(Position == 0 ? self->C.Index : self->CX.Index))
//@end
//@harness h_GF_getIndex enforce=GreensFunction_getIndex props=C01 reach=3 timeout=60 min_obl=20
void h_GF_getIndex(void)
{
  struct GreensFunction *g; unsigned long pos;
  VERIF_thrown = 0;
  unsigned int r = GreensFunction_getIndex(g, pos);
  REACH("exit");
  if (VERIF_thrown) REACH("rejected"); else REACH("accepted");
}
//@tu src/pomerol/TwoParticleGF.cpp
/* "Returns the number of current permutation in permutations3": for a permutation of 3 elements with its sign (= parity) the
 * result i satisfies permutations3[i] == in.  (For a value that is not in the table the code logs an error and returns 0.) */
static inline int P3_parity(Permutation3 p)       /* +1 even, -1 odd: number of inversions */
{ int inv = (p.perm[0] > p.perm[1]) + (p.perm[0] > p.perm[2]) + (p.perm[1] > p.perm[2]); return (inv & 1) ? -1 : 1; }
#define P3_SAME(a, b) ((a).perm[0] == (b).perm[0] && (a).perm[1] == (b).perm[1] && (a).perm[2] == (b).perm[2] && (a).sign == (b).sign)
unsigned short g_pj;       /* ghost: the position of `in` in the table (exists: h_permutations3_table shows the table is complete) */
//@function Pomerol::TwoParticleGF::getPermutationNumber(Pomerol::Permutation3 const&) as TwoParticleGF_getPermutationNumber
//@contract
__CPROVER_requires(__CPROVER_is_fresh(self, sizeof(*self)))
/* TYPE INVARIANT of the argument: a permutation of 3 elements with sign = parity, i.e. (completeness of the table) entry g_pj */
__CPROVER_requires(P3_wf(in) && in.sign == P3_parity(in) && g_pj < 6 && P3_SAME(permutations3[g_pj], in))
__CPROVER_assigns()
__CPROVER_ensures(__CPROVER_return_value < 6 && P3_SAME(permutations3[__CPROVER_return_value], in))
//@loop 1
__CPROVER_assigns(i)
__CPROVER_loop_invariant(i <= g_pj)
__CPROVER_decreases(6 - (int)i)
//@end
//@harness h_TPGF_getPermutationNumber enforce=TwoParticleGF_getPermutationNumber props=C13 reach=1 timeout=60 min_obl=84
void h_TPGF_getPermutationNumber(void)
{
  struct TwoParticleGF *g; Permutation3 p;
  g_pj = nondet_ushort();
  unsigned short r = TwoParticleGF_getPermutationNumber(g, p);
  REACH("exit");
}
unsigned short nondet_ushort(void);
/* the table itself: six pairwise different permutations with sign = parity (so every permutation of 3 elements is listed) */
//@harness h_permutations3_table enforce=none loops=0 props=C13 unwind=7 reach=1 timeout=60 min_obl=97
void h_permutations3_table(void)
{
  for (int i = 0; i < 6; i++) {
    __CPROVER_assert(P3_wf(permutations3[i]) && permutations3[i].sign == P3_parity(permutations3[i]), "C13: permutations3[i] is a permutation with sign = parity");
    for (int j = 0; j < 6; j++) if (j != i) __CPROVER_assert(!P3_same(permutations3[i], permutations3[j]), "C13: the six entries of permutations3 are pairwise different");
  }
  Permutation3 p;      /* arbitrary */
  if (P3_wf(p) && p.sign == P3_parity(p))
    __CPROVER_assert(P3_same(permutations3[0], p) || P3_same(permutations3[1], p) || P3_same(permutations3[2], p) || P3_same(permutations3[3], p) ||
                     P3_same(permutations3[4], p) || P3_same(permutations3[5], p), "C13: every permutation of 3 elements (sign = parity) is listed in permutations3");
  REACH("exit");
}

/* ======================= MUTATION RECORD (tools/try_mutant.py, scratch worktree; all killed) =======================
 * IndexCombination4::operator== : `Index4 == rhs.Index4` -> `Index4 == rhs.Index3`            IC4_eq.postcondition.1
 * IndexCombination4::operator!= : `!(*this==rhs)` -> `(*this==rhs)`                            IC4_ne.postcondition.1
 * IndexCombination4::operator== (through !=): the Index2 comparison dropped                   IC4_ne.postcondition.1
 * Permutation3::operator== : perm[1] comparison dropped                                        Permutation3_eq.postcondition.1
 * Permutation3::operator== (through !=): sign comparison dropped                               Permutation3_ne.postcondition.1
 * Permutation4::operator== : perm[2] comparison dropped                                        Permutation4_eq.postcondition.1
 * Permutation4::operator!= : `!(*this==rhs)` -> `(*this==rhs)`                                 Permutation4_ne.postcondition.1
 * Permutation4::operator== (through !=): `perm[0] == rhs.perm[0]` -> `rhs.perm[1]`             Permutation4_ne.postcondition.1
 * TwoParticleGF::isVanishing : `return !Vanishing`                                             TwoParticleGF_isVanishing.postcondition.1
 * TwoParticleGF::getIndex : case 2 returns CX4.getIndex()                                      TwoParticleGF_getIndex.postcondition.2
 * TwoParticleGF::getIndex : `case 0: case 4:`                                                  TwoParticleGF_getIndex.postcondition.1/.2
 * TwoParticleGF::getPermutationNumber : `return i+1`                                           TwoParticleGF_getPermutationNumber.postcondition.1
 * TwoParticleGF::getPermutationNumber : loop from i=1                                          TwoParticleGF_getPermutationNumber.loop_invariant_base.2
 * permutations3 (Misc.cpp): entry {1,2,0} sign +1 -> -1                                        h_permutations3_table.assertion.1/.3
 * REMARK: Permutation3/4::operator== compare the sign and all entries but the last; the last entry is determined for values that
 * are permutations (the type invariant P3_wf / P4_wf in the requires); for other values of the struct the functions are not specified. */
