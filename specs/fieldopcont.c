/* FieldOperatorContainer::prepareAll(std::set<ParticleIndex>), getCreationOperator(i), getAnnihilationOperator(i).     Property C10
 * ("... both for operators computed one by one and for those produced by the operator container").
 *
 * Documentation (include/pomerol/FieldOperatorContainer.h): the container "store[s] and retrieve[s] FieldOperators ... for a given
 * Index"; mapCreationOperators "gives a link to the CreationOperator for a given index"; getCreationOperator "Returns the
 * CreationOperator for a given Index. Makes on-demand computation."; prepareAll(in = empty set) is not documented: by the names and
 * the call sites (prog/, test/) the empty set means "every index of IndexInfo".
 *
 * Proved
 *   prepareAll(in): for the requested index v at an ARBITRARY position of the effective index set (the argument, or 0..IndexSize-1
 *     when the argument is empty -- then position p holds index p): exactly one CreationOperator and one AnnihilationOperator are
 *     constructed for v, both from the container's own IndexInfo, S, H; each is prepared exactly once (prepare() called once, on it,
 *     before it is stored); mapCreationOperators[v] / mapAnnihilationOperators[v] hold these two objects at the end (later indices
 *     do not overwrite them); two operators are constructed per requested index, nothing else.
 *   getCreationOperator(i) / getAnnihilationOperator(i), with the container invariant "a stored operator is non-null and was built
 *     for its key" (prepareAll's post-condition) and i a stored key: returns the operator stored for i, whose index is i; throws
 *     (std::logic_error) exactly when IndexInfo.checkIndex(i) is false; the container is not changed.
 *   DEFECT D17 (found by h_FOC_get*_ondemand, repaired in /repo by a fix: commit): for a valid index that was NOT prepared the code
 *     evaluated `*mapCreationOperators[in]`: operator[] inserted a null pointer and a null reference was returned.  The repaired code
 *     looks the key up and throws the documented std::logic_error.  Native replay: /verif/replay/foc_ondemand.cpp.
 */
#include "../stubs/common.h"
//@include types_common.inc
//@type std::map<(Pomerol::)?ParticleIndex, (Pomerol::)?CreationOperator ?\*.*>|std::map<unsigned int, Pomerol::CreationOperator ?\*.*> => OpMapCX ptr
//@type std::map<(Pomerol::)?ParticleIndex, (Pomerol::)?AnnihilationOperator ?\*.*>|std::map<unsigned int, Pomerol::AnnihilationOperator ?\*.*> => OpMapC ptr
//@type std::map<(Pomerol::)?ParticleIndex, (Pomerol::)?(Creation|Annihilation)Operator ?\*.*>::(const_)?iterator|std::_Rb_tree_(const_)?iterator<std::pair<const unsigned int, Pomerol::(Creation|Annihilation)Operator ?\*> ?> => OpMapIt val
//@type std::set<(Pomerol::)?ParticleIndex.*>|std::set<unsigned int.*> => IdxSet ptr
//@type std::set<(Pomerol::)?ParticleIndex.*>::(const_)?iterator|std::_Rb_tree_const_iterator<unsigned int>(::_Self)? => IdxSetIt val
//@record Pomerol::CreationOperator => CXOp ptr
//@record Pomerol::AnnihilationOperator => COp ptr
//@tu src/pomerol/FieldOperatorContainer.cpp
//@enum ComputableObject::
struct IndexClassification { unsigned int n; }; struct StatesClassification { char o; }; struct Hamiltonian { char o; };
/* IndexClassification: "Returns total number of ParticleIndices", "Checks if the index belongs to the space of indices" */
static inline unsigned int IndexClassification_getIndexSize(struct IndexClassification *I) { return I->n; }
static inline _Bool IndexClassification_checkIndex(struct IndexClassification *I, unsigned int in) { return in < I->n; }

/* a field operator as seen by the container: what it was constructed from + how often prepare() ran on it */
struct FieldOperator { int kind; unsigned int Index; struct IndexClassification *I; struct StatesClassification *S; struct Hamiltonian *H; unsigned long nprep; };
typedef struct FieldOperator CXOp;
typedef struct FieldOperator COp;

/* ---- std::map<ParticleIndex, Operator*>: ghost-key model; operator[] default-constructs (null) a missing entry */
typedef struct OpMapCX { unsigned int gkey; _Bool has; struct FieldOperator *gval; struct FieldOperator *scratch; } OpMapCX;
typedef OpMapCX OpMapC;
static inline struct FieldOperator **opmap_at(OpMapCX *m, unsigned int key)
{
  if (key == m->gkey) { if (!m->has) { m->has = 1; m->gval = (struct FieldOperator *)0; } return &m->gval; }
  m->scratch = (struct FieldOperator *)0;      /* another key: its entry is not tracked (a read yields an arbitrary stored pointer) */
  return &m->scratch;
}
/* the key arrives by address (lvalue: const key_type&) or by value (rvalue: key_type&&) */
static inline unsigned int opkey_p(const unsigned int *k) { return *k; }
static inline unsigned int opkey_v(unsigned int k) { return k; }
#define OPKEY(k) _Generic((k), unsigned int *: opkey_p, const unsigned int *: opkey_p, default: opkey_v)(k)
/* find() / end(): an iterator is "end" or a (key, stored pointer) pair; only comparisons with end() are modelled */
typedef struct OpPair { unsigned int first; struct FieldOperator *second; } OpPair;
typedef struct OpMapIt { _Bool end; OpPair pr; } OpMapIt;
struct FieldOperator *nondet_opptr(void);
static inline OpMapIt opmap_find(OpMapCX *m, unsigned int key)
{
  OpMapIt it; it.pr.first = key;
  if (key == m->gkey) { it.end = !m->has; it.pr.second = m->gval; }
  else { it.end = nondet_bool(); it.pr.second = nondet_opptr(); }     /* another key: not tracked */
  return it;
}
#define OpMapCX_find(m, key) (*(OpMapIt[1]){ opmap_find((m), OPKEY(key)) })
#define OpMapC_find(m, key)  (*(OpMapIt[1]){ opmap_find((m), OPKEY(key)) })
#define OpMapCX_end(m) (*(OpMapIt[1]){ { 1 } })
#define OpMapC_end(m)  (*(OpMapIt[1]){ { 1 } })
#define OpMapIt_ctor1(itp) (*(itp))      /* const_iterator(iterator): same position */
#define op_ne_OpMapIt_OpMapIt(a, b) ((a)->end != (b)->end)
#define op_eq_OpMapIt_OpMapIt(a, b) ((a)->end == (b)->end)
#define OpMapIt_arrow(it) (__CPROVER_assert(!(it)->end, "std::map iterator dereferenced only before end()"), &(it)->pr)
#define OpMapCX_at(m, key) opmap_at((m), OPKEY(key))
#define OpMapC_at(m, key)  opmap_at((m), OPKEY(key))
//@struct Pomerol::FieldOperatorContainer only=IndexInfo,S,H,mapCreationOperators,mapAnnihilationOperators

/* ------------------------------------------------------------------------------------------ getCreationOperator / getAnnihilationOperator */
/* CONTAINER INVARIANT (post-condition of prepareAll at the ghost key): a stored operator exists and was built for its key */
#define MAP_INV(m) (!(m).has || (__CPROVER_is_fresh((m).gval, sizeof(struct FieldOperator)) && (m).gval->Index == (m).gkey))
#define CONT_BASE(self) (__CPROVER_is_fresh(self, sizeof(*self)) && !VERIF_thrown && __CPROVER_is_fresh(self->IndexInfo, sizeof(struct IndexClassification)))
/* twins for the other spelling of an increment (`++it` for `it++` and vice versa): same effect.  X_inc yields the iterator after the step
 * (exact); X_postinc made from X_inc is void, so a use of its value does not compile (UNDECIDED) instead of being modelled wrongly */
#define IdxSetIt_inc(it_) (IdxSetIt_postinc(it_), (it_))      /* pre-increment: the iterator itself, after the step */
//@function Pomerol::FieldOperatorContainer::getCreationOperator(unsigned int) const as FOC_getCreationOperator
//@contract
__CPROVER_requires(CONT_BASE(self) && MAP_INV(self->mapCreationOperators) && in == self->mapCreationOperators.gkey)
/* the index was prepared */
__CPROVER_requires(in < self->IndexInfo->n ==> self->mapCreationOperators.has)
__CPROVER_assigns(VERIF_thrown)
__CPROVER_ensures(VERIF_thrown == !(in < self->IndexInfo->n))
__CPROVER_ensures(!VERIF_thrown ==> (__CPROVER_return_value == self->mapCreationOperators.gval && __CPROVER_return_value->Index == in))
//@end
//@harness h_FOC_getCreationOperator enforce=FOC_getCreationOperator props=C10 min_obl=134 reach=2 timeout=60
void h_FOC_getCreationOperator(void) { struct FieldOperatorContainer *c; unsigned int i; FOC_getCreationOperator(c, i); if (VERIF_thrown) REACH("thrown"); else REACH("found"); }
//@function Pomerol::FieldOperatorContainer::getAnnihilationOperator(unsigned int) const as FOC_getAnnihilationOperator
//@contract
__CPROVER_requires(CONT_BASE(self) && MAP_INV(self->mapAnnihilationOperators) && in == self->mapAnnihilationOperators.gkey)
__CPROVER_requires(in < self->IndexInfo->n ==> self->mapAnnihilationOperators.has)
__CPROVER_assigns(VERIF_thrown)
__CPROVER_ensures(VERIF_thrown == !(in < self->IndexInfo->n))
__CPROVER_ensures(!VERIF_thrown ==> (__CPROVER_return_value == self->mapAnnihilationOperators.gval && __CPROVER_return_value->Index == in))
//@end
//@harness h_FOC_getAnnihilationOperator enforce=FOC_getAnnihilationOperator props=C10 min_obl=134 reach=2 timeout=60
void h_FOC_getAnnihilationOperator(void) { struct FieldOperatorContainer *c; unsigned int i; FOC_getAnnihilationOperator(c, i); if (VERIF_thrown) REACH("thrown"); else REACH("found"); }

/* Without the "was prepared" pre-condition (C17: no undefined behaviour on any call sequence; C10: what the container hands out is the
 * operator of that index): an invalid index throws; a normal return is a non-null operator built for `in` -- NEVER a null reference.
 * (The header also says "Makes on-demand computation"; that is not part of any listed property: throwing for a valid index that was
 * not prepared is accepted here, returning a null reference is not.)  Failed before the repair D17 (see known_findings.json). */
//@function Pomerol::FieldOperatorContainer::getCreationOperator(unsigned int) const as FOC_getCreationOperator_doc
//@contract
__CPROVER_requires(CONT_BASE(self) && MAP_INV(self->mapCreationOperators) && in == self->mapCreationOperators.gkey)
__CPROVER_assigns(VERIF_thrown, self->mapCreationOperators.has, self->mapCreationOperators.gval)
__CPROVER_ensures(!(in < self->IndexInfo->n) ==> VERIF_thrown)
__CPROVER_ensures(!VERIF_thrown ==> (__CPROVER_return_value != (struct FieldOperator *)0 && __CPROVER_return_value->Index == in))
//@end
//@harness h_FOC_getCreationOperator_ondemand enforce=FOC_getCreationOperator_doc props=C10 min_obl=111 reach=2 timeout=60
void h_FOC_getCreationOperator_ondemand(void) { struct FieldOperatorContainer *c; unsigned int i; FOC_getCreationOperator_doc(c, i); if (VERIF_thrown) REACH("thrown"); else REACH("found"); }
//@function Pomerol::FieldOperatorContainer::getAnnihilationOperator(unsigned int) const as FOC_getAnnihilationOperator_doc
//@contract
__CPROVER_requires(CONT_BASE(self) && MAP_INV(self->mapAnnihilationOperators) && in == self->mapAnnihilationOperators.gkey)
__CPROVER_assigns(VERIF_thrown, self->mapAnnihilationOperators.has, self->mapAnnihilationOperators.gval)
__CPROVER_ensures(!(in < self->IndexInfo->n) ==> VERIF_thrown)
__CPROVER_ensures(!VERIF_thrown ==> (__CPROVER_return_value != (struct FieldOperator *)0 && __CPROVER_return_value->Index == in))
//@end
//@harness h_FOC_getAnnihilationOperator_ondemand enforce=FOC_getAnnihilationOperator_doc props=C10 min_obl=111 reach=2 timeout=60
void h_FOC_getAnnihilationOperator_ondemand(void) { struct FieldOperatorContainer *c; unsigned int i; FOC_getAnnihilationOperator_doc(c, i); if (VERIF_thrown) REACH("thrown"); else REACH("found"); }

/* ------------------------------------------------------------------------------------------ prepareAll */
/* std::set<ParticleIndex>: positions 0..n-1 in increasing order; ONE ghost position gpos (arbitrary) with its element gval.
 * insert(i): MODEL restriction (ASSERTED): elements are inserted in increasing order into this set (true for the default fill). */
typedef struct IdxSet { unsigned long n; unsigned long gpos; unsigned int gval; unsigned int last; } IdxSet;
typedef struct IdxSetIt { unsigned long pos; } IdxSetIt;
#define IDX_MAX 1000000UL
#define IdxSet_size(s) ((s)->n)
static inline void IdxSet_insert(IdxSet *s, unsigned int i)
{
  __CPROVER_assert(s->n == 0 || i > s->last, "MODEL: std::set::insert is used with increasing elements only");
  if (s->n == s->gpos) s->gval = i;
  s->last = i; s->n++;
}
#define IdxSet_begin(s) ((IdxSetIt){ 0UL })
#define IdxSet_end(s) ((IdxSetIt){ (s)->n })
#define op_ne_IdxSetIt_IdxSetIt(a, b) ((a).pos != (b).pos)
#define IdxSetIt_postinc(it) ((it)->pos++)
static inline unsigned int idxset_elem(IdxSet *s, unsigned long pos)
{
  __CPROVER_assert(pos < s->n, "std::set iterator dereferenced only before end()");
  if (pos == s->gpos) return s->gval;
  unsigned int v = nondet_uint();
  /* ASSUMED (std::set): strictly increasing iteration order, point-wise against the ghost position */
  if (s->gpos < s->n) { if (pos < s->gpos) __CPROVER_assume(v < s->gval); else __CPROVER_assume(v > s->gval); }
  return v;
}
unsigned int nondet_uint(void);
#define IdxSetIt_mul(it) ((unsigned int[1]){ idxset_elem(&in, (it)->pos) })   /* `in`: the by-value parameter of prepareAll, the only set iterated */

/* ---- monitors: construction and prepare() */
/* `new`: the two operators built for the ghost index are the objects g_cx_obj / g_c_obj, every other `new` yields the scratch object
 * g_other_op (re-initialised each time; allocation inside a loop contract is not available and the other operators are not observed) */
struct FieldOperator g_cx_obj, g_c_obj, g_other_op; unsigned long g_new;
unsigned long g_effn;                                  /* size of the effective index set */
unsigned int g_v;                                      /* the requested index at the ghost position */
unsigned long g_cx_hits, g_c_hits;                     /* constructions of a creation / annihilation operator for g_v */
static inline struct FieldOperator *op_new(int kind, struct IndexClassification *I, struct StatesClassification *S, struct Hamiltonian *H, unsigned int idx)
{
  struct FieldOperator v = { kind, idx, I, S, H, 0UL };
  struct FieldOperator *o = &g_other_op;
  if (idx == g_v) {
    if (kind == 1) { if (g_cx_hits == 0) o = &g_cx_obj; g_cx_hits++; } else { if (g_c_hits == 0) o = &g_c_obj; g_c_hits++; }
    REACH("new-for-ghost-index");
  }
  *o = v; g_new++;
  return o;
}
#define CXOp_new4(I, S, H, i) op_new(1, (I), (S), (H), (i))
#define COp_new4(I, S, H, i)  op_new(2, (I), (S), (H), (i))
/* {Creation,Annihilation}Operator::prepare(): contract in specs/fieldopprep.c; here: counted per object, kind checked */
static inline void CXOp_prepare(struct FieldOperator *o) { __CPROVER_assert(o->kind == 1, "CreationOperator::prepare runs on a creation operator"); o->nprep++; }
static inline void COp_prepare(struct FieldOperator *o)  { __CPROVER_assert(o->kind == 2, "AnnihilationOperator::prepare runs on an annihilation operator"); o->nprep++; }

#define EFF_N(self, in)  ((in).n == 0 ? (unsigned long)(self)->IndexInfo->n : (in).n)           /* size of the effective index set */
#define OP_IS(o, kind_, self) ((o)->kind == (kind_) && (o)->Index == g_v && (o)->I == (self)->IndexInfo && (o)->S == (self)->S && (o)->H == (self)->H && (o)->nprep == 1)
#define GHOST_DONE(self) (g_cx_hits == 1 && g_c_hits == 1 && \
   self->mapCreationOperators.has && self->mapCreationOperators.gval == &g_cx_obj && OP_IS(&g_cx_obj, 1, self) && \
   self->mapAnnihilationOperators.has && self->mapAnnihilationOperators.gval == &g_c_obj && OP_IS(&g_c_obj, 2, self))
//@function Pomerol::FieldOperatorContainer::prepareAll(std::set<unsigned int, std::less<unsigned int>, std::allocator<unsigned int> >) as FOC_prepareAll
//@contract
__CPROVER_requires(__CPROVER_is_fresh(self, sizeof(*self)) && __CPROVER_is_fresh(self->IndexInfo, sizeof(struct IndexClassification)) && self->IndexInfo->n <= IDX_MAX)
__CPROVER_requires(in.n <= IDX_MAX && (in.n > 0 ==> in.gpos < in.n) && (in.n == 0 ==> in.gpos < self->IndexInfo->n))
/* the requested index at the ghost position: the element of the argument, or (default) the position itself */
__CPROVER_requires(g_v == (in.n > 0 ? in.gval : (unsigned int)in.gpos))
__CPROVER_requires(self->mapCreationOperators.gkey == g_v && self->mapAnnihilationOperators.gkey == g_v)
__CPROVER_requires(g_effn == EFF_N(self, in) && g_new == 0 && g_cx_hits == 0 && g_c_hits == 0)
__CPROVER_assigns(self->mapCreationOperators, self->mapAnnihilationOperators, g_cx_obj, g_c_obj, g_other_op, g_new, g_cx_hits, g_c_hits)
/* two operators per requested index, nothing else */
__CPROVER_ensures(g_new == 2 * g_effn)
/* C10: the requested index has its creation and its annihilation operator, built for it, prepared once, stored under it */
__CPROVER_ensures(GHOST_DONE(self))
//@loop 1
__CPROVER_assigns(i, in)
__CPROVER_loop_invariant(i <= self->IndexInfo->n && in.n == i && in.gpos == __CPROVER_loop_entry(in.gpos) && (i > 0 ==> in.last == i - 1) && (in.gpos < i ==> in.gval == (unsigned int)in.gpos))
__CPROVER_decreases(self->IndexInfo->n - i)
//@loop 2
__CPROVER_assigns(it, self->mapCreationOperators, self->mapAnnihilationOperators, g_cx_obj, g_c_obj, g_other_op, g_new, g_cx_hits, g_c_hits)
__CPROVER_loop_invariant(it.pos <= in.n && in.n == g_effn && g_new == 2 * it.pos && self->mapCreationOperators.gkey == g_v && self->mapAnnihilationOperators.gkey == g_v)
__CPROVER_loop_invariant(it.pos <= in.gpos ==> (g_cx_hits == 0 && g_c_hits == 0))
__CPROVER_loop_invariant(it.pos > in.gpos ==> GHOST_DONE(self))
__CPROVER_decreases(in.n - it.pos)
//@end
//@harness h_FOC_prepareAll enforce=FOC_prepareAll props=C10 min_obl=770 reach=2 timeout=240
void h_FOC_prepareAll(void) { struct FieldOperatorContainer *c; IdxSet s; FOC_prepareAll(c, s); REACH("exit"); }

/* ---- mutation record (tools/try_mutant.py; every mutant KILLED) -----------------------------------------------------------------
 * h_FOC_prepareAll:              mapCreationOperators[i] = CX -> mapCreationOperators[0] = CX      FOC_prepareAll.loop_invariant_step.5 (GHOST_DONE)
 *                                `CX->prepare();` removed                                           loop_invariant_step.5 (prepared once)
 *                                `C->prepare();` removed                                            loop_invariant_step.5
 *                                new AnnihilationOperator(..,i) -> (..,0)                           loop_invariant_step.5 (built for its key)
 *                                default fill i < IndexSize -> i+1 < IndexSize                      postcondition.1/.2, loop_invariant_base.4
 * h_FOC_getCreationOperator:     mapCreationOperators[in] -> [0]                                    postcondition.2
 *                                checkIndex(in) -> true                                             postcondition.1/.2
 * h_FOC_getAnnihilationOperator: mapAnnihilationOperators[in] -> [0]                                postcondition.2
 *                                checkIndex(in) -> !checkIndex(in)                                  postcondition.1/.2
 * h_FOC_get*_ondemand: FAIL on the unchanged tree (FINDING, see the header): FOC_get*Operator_doc.postcondition.2
 */
