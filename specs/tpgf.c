/* TwoParticleGF -- selection of the world stripes in prepare() (C02, C19), evaluation operator() (C02),
 * table assembly in ComputeAndClearWrap::run() / compute() (C02, C17).
 * Mutants and what is / is not proved: see the comment at the end of the file. */
#include "../stubs/common.h"
#include "../stubs/cplx.h"
#include "../stubs/bimap.h"
//@include types_common.inc
//@include types_bimap.inc
//@type std::vector<(Pomerol::)?TwoParticleGFPart \*(, std::allocator<.*>)?> => PartVec ptr
//@type std::reverse_iterator<__gnu_cxx::__normal_iterator<(Pomerol::)?TwoParticleGFPart \*\*, std::vector<(Pomerol::)?TwoParticleGFPart \*(, .*)?> ?> ?>|std::vector<(Pomerol::)?TwoParticleGFPart \*(, .*)?>::reverse_iterator => PartVecRIt val
//@type __gnu_cxx::__normal_iterator<(Pomerol::)?TwoParticleGFPart \*(const)? ?\*, std::vector<(Pomerol::)?TwoParticleGFPart \*(, .*)?> ?>|std::vector<(Pomerol::)?TwoParticleGFPart \*(, .*)?>::(const_)?iterator => PartVecIt val
//@record Pomerol::AnnihilationOperator => struct FieldOperator ptr
//@record Pomerol::CreationOperator => struct FieldOperator ptr
//@record Pomerol::CreationOperatorPart => struct FieldOperatorPart ptr
//@record Pomerol::AnnihilationOperatorPart => struct FieldOperatorPart ptr
//@record Pomerol::Permutation3 => Permutation3 val
//@tu src/pomerol/TwoParticleGF.cpp
//@enum ComputableObject::
typedef struct Permutation3 Permutation3;
//@struct Pomerol::Permutation3
//@tu src/pomerol/Misc.cpp
//@global permutations3
//@tu src/pomerol/TwoParticleGF.cpp

/* ---- BlockNumber (stubs/bimap.h): the inline members */
#define BlockNumber_ctor1(n_) ((BlockNumber){ (n_) })
#define ERROR_BLOCK_NUMBER BlockNumber_ctor1(-1)         /* StatesClassification.h:142  const BlockNumber ERROR_BLOCK_NUMBER = -1; */
#define BlockNumber_4_ctor0() { { nondet_int() }, { nondet_int() }, { nondet_int() }, { nondet_int() } }   /* BlockNumber(){} leaves the number indeterminate */
#define BlockNumber_assign(p_, v_) (*(p_) = (v_))
//@tu src/pomerol/StatesClassification.cpp
/* twins for the other spelling of an increment (`++it` for `it++` and vice versa): same effect.  X_inc yields the iterator after the step
 * (exact); X_postinc made from X_inc is void, so a use of its value does not compile (UNDECIDED) instead of being modelled wrongly */
#define PartVecIt_inc(it_) (PartVecIt_postinc(it_), (it_))      /* pre-increment: the iterator itself, after the step */
//@function Pomerol::BlockNumber::operator==(Pomerol::BlockNumber const&) const as BlockNumber_eq
//@end
//@tu src/pomerol/TwoParticleGF.cpp
//@function Pomerol::BlockNumber::isCorrect() as BlockNumber_isCorrect
//@end

/* ---- opaque part handles (as in susc.c): a handle is an injective function of (owner, block number): base address of a
 * one-element ghost array inside the owner + block number; never dereferenced. */
struct FieldOperatorPart { char opaque; };
struct HamiltonianPart { char opaque; };
struct DensityMatrixPart { char opaque; };
struct Hamiltonian { long nblocks; struct HamiltonianPart ghost_parts[1]; };
struct DensityMatrix { long nblocks; struct DensityMatrixPart ghost_parts[1]; };
struct StatesClassification;
//@struct Pomerol::FieldOperator only=Status,LeftRightBlocks
//@extra
struct FieldOperatorPart ghost_parts_by_left[1];    /* handle of the part whose LEFT block is l:  &ghost_parts_by_left[0] + l  */
/* ghost view of the block map of C1, C2, CX3 (only looked up, never walked): ONE arbitrary relation <gl|Op|gr> (if has_g) ... */
_Bool has_g; int gl, gr;
/* ... and the relation <last_l|Op|last_r> the most recent look-up found (last_ok), for the monitors */
_Bool last_ok; int last_l, last_r;
long kmax;                                         /* every block number of a relation is in [0,kmax) */
//@end
#define PART_BY_LEFT(op, l) (&(op)->ghost_parts_by_left[0] + (l))
#define H_PART(h, b) (&(h)->ghost_parts[0] + (b))
#define DM_PART(d, b) (&(d)->ghost_parts[0] + (b))

/* ---- the parts.  prepare() writes the three tolerances of the part it has just created; the part created for the ghost
 * (CX4 relation, permutation) is the object g_ghost_part, every other one the scratch object g_other_part. */
//@tu src/pomerol/TwoParticleGFPart.cpp
/* the two term lists of a part are only broadcast here: number of broadcasts and the root of the last one */
typedef struct TermListNR { unsigned long n_bcast; int root; } TermListNR;
typedef struct TermListR { unsigned long n_bcast; int root; } TermListR;
//@type (Pomerol::)?TermList<(Pomerol::)?TwoParticleGFPart::NonResonantTerm> => TermListNR ptr
//@type (Pomerol::)?TermList<(Pomerol::)?TwoParticleGFPart::ResonantTerm> => TermListR ptr
//@struct Pomerol::TwoParticleGFPart only=Status,ReduceResonanceTolerance,CoefficientTolerance,MultiTermCoefficientTolerance,NonResonantTerms,ResonantTerms
//@extra
unsigned long n_compute, n_eval, n_clear, evals_at_clear;   /* ghost: calls of compute() / operator() / clear(), evaluations seen when clear() was called */
//@end
//@tu src/pomerol/TwoParticleGF.cpp
struct TwoParticleGFPart g_ghost_part, g_other_part;

/* ---- std::vector<TwoParticleGFPart*> (TRUSTED: push_back appends, size() counts, *rbegin() is the last element,
 * iteration visits items[0..n) in order).  prepare() only appends: there the vector is its size + the pointer pushed last;
 * the evaluation functions only iterate: there items[] is a fresh array of n part pointers. */
#define PV_MAX 1000000L
typedef struct PartVec {
  unsigned long n; struct TwoParticleGFPart *last; struct TwoParticleGFPart **items;
  /* ghost */ long gidx;      /* ONE arbitrary position in [0,n) or -1 */
  long last_pos;              /* position of the most recent dereference */
  struct TwoParticleGFPart *gitem, *oitem;   /* compute(): ghost-element view for operator[]: the part at gidx / a scratch part for every other index */
} PartVec;
typedef struct PartVecRIt { PartVec *v; } PartVecRIt;
typedef struct PartVecIt { PartVec *v; long pos; } PartVecIt;
struct TwoParticleGFPart *g_last_new;   /* result of the most recent `new TwoParticleGFPart(...)` */
static inline void PartVec_push_back(PartVec *v, struct TwoParticleGFPart *p)
{
  __CPROVER_assert(p == g_last_new, "C02: what is stored in the vector is the part just created");
  v->n++; v->last = p;
}
static inline unsigned long PartVec_size(PartVec *v) { return v->n; }
#define PartVec_rbegin(v_) (*(PartVecRIt[1]){ { (v_) } })
static inline struct TwoParticleGFPart **PartVecRIt_mul(PartVecRIt *it)
{
  __CPROVER_assert(it->v->n > 0, "std::vector: *rbegin() of a non-empty vector");
  return &it->v->last;
}

//@struct Pomerol::TwoParticleGF embed=C1,C2,CX3,CX4,H,DM

struct TwoParticleGF *g_self;    /* the object under verification (for the monitors) */
long g_pstar;                    /* ghost permutation number */
long g_hits;                     /* parts created for the ghost (CX4 relation, permutation) */
long g_expected; _Bool g_chain;  /* pre-state: the ghost relations form a closed chain / expected number of parts then */
unsigned long g_n_new;           /* parts created */

/* C19: retained(b) is an opaque oracle of the block number (DensityMatrix::isRetained(b) = parts[b]->isRetained(), not modified here) */
/* (an unbounded ghost array rather than an uninterpreted function: loop invariants may not contain calls) */
_Bool g_retained[__CPROVER_constant_infinity_uint];
#define RET(b) g_retained[b]
/* callee contracts (pomerol functions outside this package; their pre-conditions are obligations of prepare()):
 *   DensityMatrix::isRetained(b), DensityMatrix::getPart(b), Hamiltonian::getPart(b) index `parts[b]`: b must be a block number. */
static inline _Bool DensityMatrix_isRetained(struct DensityMatrix *dm, BlockNumber in)
{
  __CPROVER_assert(0 <= in.number && in.number < dm->nblocks, "DensityMatrix::isRetained: block number inside parts[]");
  return RET(in.number);
}
static inline struct DensityMatrixPart *DensityMatrix_getPart(struct DensityMatrix *dm, BlockNumber in)
{
  __CPROVER_assert(0 <= in.number && in.number < dm->nblocks, "DensityMatrix::getPart: block number inside parts[]");
  return DM_PART(dm, in.number);
}
static inline struct HamiltonianPart *Hamiltonian_getPart(struct Hamiltonian *h, BlockNumber in)
{
  __CPROVER_assert(0 <= in.number && in.number < h->nblocks, "Hamiltonian::getPart: block number inside parts[]");
  return H_PART(h, in.number);
}
/*   FieldOperator::getRightIndex(l) / getLeftIndex(r)  (FieldOperator.h: "Returns the right/left index ... If no BlockNumber found
 *   returns ERROR_BLOCK_NUMBER"; both throw exStatusMismatch when the operator is not prepared):  the result is the partner of the
 *   argument in the operator's one-to-one block map (boost::bimap), or ERROR_BLOCK_NUMBER = -1.  Stated point-wise against the ONE ghost
 *   relation <gl|Op|gr>: the partner of gl is gr and vice versa; nothing else is mapped to gl / gr (one-to-one).  Block numbers are in
 *   [0,kmax) (type invariant of the owner, bimap.h B3).  The relation found is recorded for the monitors. */
static inline BlockNumber FieldOperator_getRightIndex(struct FieldOperator *op, BlockNumber l)
{
  BlockNumber r; r.number = -1;
  if (op->Status < Prepared) { VERIF_THROW("exStatusMismatch"); return r; }
  if (op->has_g && l.number == op->gl) r.number = op->gr;
  else { r.number = nondet_int(); __CPROVER_assume(-1 <= r.number && r.number < op->kmax && (!op->has_g || r.number != op->gr)); }
  op->last_ok = (r.number >= 0); op->last_l = l.number; op->last_r = r.number;
  return r;
}
static inline BlockNumber FieldOperator_getLeftIndex(struct FieldOperator *op, BlockNumber r)
{
  BlockNumber l; l.number = -1;
  if (op->Status < Prepared) { VERIF_THROW("exStatusMismatch"); return l; }
  if (op->has_g && r.number == op->gr) l.number = op->gl;
  else { l.number = nondet_int(); __CPROVER_assume(-1 <= l.number && l.number < op->kmax && (!op->has_g || l.number != op->gl)); }
  op->last_ok = (l.number >= 0); op->last_l = l.number; op->last_r = r.number;
  return l;
}
/*   FieldOperator::getPartFromLeftIndex(l) = *parts[mapPartsFromLeft.find(l)->second]: l must be a LEFT block of a relation of the
 *   operator (find() is dereferenced unchecked).  Witness: the relation the most recent look-up found (C1, C2, CX3), resp. the relation
 *   the right-view iterator was dereferenced at last (CX4).  Throws exStatusMismatch when the operator is not prepared. */
#define LOOKUP_WITNESS(op, l) ((op)->last_ok && (op)->last_l == (l))
#define RIGHT_WITNESS(op, l) (0 <= (op)->LeftRightBlocks.right.last_pos && (op)->LeftRightBlocks.right.last_pos < (op)->LeftRightBlocks.right.n && \
                              (op)->LeftRightBlocks.right.e[(op)->LeftRightBlocks.right.last_pos].second.number == (l))
static inline struct FieldOperatorPart *FieldOperator_getPartFromLeftIndex(struct FieldOperator *op, BlockNumber in)
{
  if (op->Status < Prepared) { VERIF_THROW("exStatusMismatch"); return (struct FieldOperatorPart *)0; }
  __CPROVER_assert(op == &g_self->CX4 ? RIGHT_WITNESS(op, in.number) : LOOKUP_WITNESS(op, in.number),
                   "FieldOperator::getPartFromLeftIndex: the argument is a left block of the operator");
  return PART_BY_LEFT(op, in.number);
}

/* SPEC (TwoParticleGF.h "Every part corresponds to a 'world-stripe', a sequence of 4 matrix blocks"; TwoParticleGFPart.h:
 * <1|O1|2><2|O2|3><3|O3|4><4|CX4|1> with (O1,O2,O3) = the permutation of (C1,C2,CX3); C19 "a part is skipped only when all
 * blocks of its stripe are discarded"):
 *   for every relation <4|CX4|1> of CX4 and every permutation k of permutations3, with Oj = operator number permutations3[k].perm[j-1]:
 *   exactly one part  TwoParticleGFPart(O1-part with left block 1, O2-part with left block 2, O3-part with left block 3,
 *   CX4-part with left block 4, H(1),H(2),H(3),H(4), DM(1),DM(2),DM(3),DM(4), permutations3[k])
 *   iff there are relations <1|O1|2>, <2|O2|3>, <3|O3|4> and one of the blocks 1,2,3,4 is retained; nothing else. */
#define OPSEL(s, num) ((num) == 0 ? &(s)->C1 : ((num) == 1 ? &(s)->C2 : &(s)->CX3))
#define CX4R (&g_self->CX4.LeftRightBlocks.right)
#define IS_PERM(P, j) ((P).perm[0] == permutations3[j].perm[0] && (P).perm[1] == permutations3[j].perm[1] && (P).perm[2] == permutations3[j].perm[2] && (P).sign == permutations3[j].sign)
struct TwoParticleGFPart *TwoParticleGFPart_new13(struct FieldOperatorPart *O1, struct FieldOperatorPart *O2, struct FieldOperatorPart *O3, struct FieldOperatorPart *CX4p,
    struct HamiltonianPart *H1, struct HamiltonianPart *H2, struct HamiltonianPart *H3, struct HamiltonianPart *H4,
    struct DensityMatrixPart *D1, struct DensityMatrixPart *D2, struct DensityMatrixPart *D3, struct DensityMatrixPart *D4, Permutation3 P)
{
  long k = IS_PERM(P, 0) ? 0 : IS_PERM(P, 1) ? 1 : IS_PERM(P, 2) ? 2 : IS_PERM(P, 3) ? 3 : IS_PERM(P, 4) ? 4 : IS_PERM(P, 5) ? 5 : -1;
  __CPROVER_assert(k >= 0, "C02: the permutation of a part is an entry of permutations3");
  long q = CX4R->last_pos;
  __CPROVER_assert(0 <= q && q < CX4R->n, "C02: a part is created only while the outer iterator is on a relation of CX4");
  if (k < 0 || q < 0 || q >= CX4R->n) return &g_other_part;
  int b1 = CX4R->e[q].first.number, b4 = CX4R->e[q].second.number;       /* <4|CX4|1>: right view = (right key, left key) */
  struct FieldOperator *o1 = OPSEL(g_self, permutations3[k].perm[0]), *o2 = OPSEL(g_self, permutations3[k].perm[1]), *o3 = OPSEL(g_self, permutations3[k].perm[2]);
  /* soundness: the stripe exists -- witnesses are the relations the look-ups in O1, O2 (by left block), O3 (by right block) found */
  __CPROVER_assert(o1->last_ok && o2->last_ok && o3->last_ok, "C02: a part is created only after all three operators have been looked up successfully");
  int b2 = o1->last_r, b3 = o2->last_r;
  __CPROVER_assert(o1->last_l == b1, "C02: <1|O1|2> is a relation of O1");
  __CPROVER_assert(o2->last_l == b2, "C02: <2|O2|3> is a relation of O2");
  __CPROVER_assert(o3->last_l == b3 && o3->last_r == b4, "C02: <3|O3|4> is a relation of O3");
  /* ... at least one of its blocks is retained ... */
  __CPROVER_assert(RET(b1) || RET(b2) || RET(b3) || RET(b4), "C19: no part for a stripe of discarded blocks");
  /* ... and the part is built from the documented constituents */
  __CPROVER_assert(O1 == PART_BY_LEFT(o1, b1) && O2 == PART_BY_LEFT(o2, b2) && O3 == PART_BY_LEFT(o3, b3), "C02: operator parts: Oj = part of operator perm[j] with left block j");
  __CPROVER_assert(CX4p == PART_BY_LEFT(&g_self->CX4, b4), "C02: fourth operator part = part of CX4 with left block 4");
  __CPROVER_assert(H1 == H_PART(&g_self->H, b1) && H2 == H_PART(&g_self->H, b2) && H3 == H_PART(&g_self->H, b3) && H4 == H_PART(&g_self->H, b4), "C02: Hamiltonian parts of the blocks 1,2,3,4 in this order");
  __CPROVER_assert(D1 == DM_PART(&g_self->DM, b1) && D2 == DM_PART(&g_self->DM, b2) && D3 == DM_PART(&g_self->DM, b3) && D4 == DM_PART(&g_self->DM, b4), "C02: density-matrix parts of the blocks 1,2,3,4 in this order");
  g_n_new++;
  if (q == CX4R->gpos && k == g_pstar) { g_hits++; g_last_new = &g_ghost_part; REACH("new_part@ghost"); }
  else g_last_new = &g_other_part;
  REACH("new_part");
  return g_last_new;
}

//@tu src/pomerol/FieldOperator.cpp
//@maythrow FieldOperator_getBlockMapping FieldOperator_getPartFromLeftIndex FieldOperator_getLeftIndex FieldOperator_getRightIndex
//@function Pomerol::FieldOperator::getBlockMapping() const as FieldOperator_getBlockMapping
//@end
//@tu src/pomerol/TwoParticleGF.cpp
//@maythrow TwoParticleGF_getLeftIndex TwoParticleGF_getRightIndex TwoParticleGF_OperatorPartAtPosition
//@function Pomerol::TwoParticleGF::getLeftIndex(unsigned long, unsigned long, Pomerol::BlockNumber) const as TwoParticleGF_getLeftIndex
//@end
//@function Pomerol::TwoParticleGF::getRightIndex(unsigned long, unsigned long, Pomerol::BlockNumber) const as TwoParticleGF_getRightIndex_f
//@end
/* printed `BlockNumber_eq(&TwoParticleGF_getRightIndex(..), x)`: the temporary must be addressable */
#define TwoParticleGF_getRightIndex(s_, p_, o_, l_) (*(BlockNumber[1]){ TwoParticleGF_getRightIndex_f((s_), (p_), (o_), (l_)) })
//@function Pomerol::TwoParticleGF::OperatorPartAtPosition(unsigned long, unsigned long, Pomerol::BlockNumber) const as TwoParticleGF_OperatorPartAtPosition
//@end

/* the ghost: ONE arbitrary relation of CX4 (right view, position gpos), ONE arbitrary permutation g_pstar, ONE arbitrary relation
 * <gl|Op|gr> of each of C1, C2, CX3. */
#define SOP(self, j) OPSEL(self, permutations3[g_pstar].perm[j])
#define SCX4R(self) (&(self)->CX4.LeftRightBlocks.right)
#define G_B1(self) (SCX4R(self)->e[SCX4R(self)->gpos].first.number)
#define G_B4(self) (SCX4R(self)->e[SCX4R(self)->gpos].second.number)
#define G_B2(self) (SOP(self, 0)->gr)
#define G_B3(self) (SOP(self, 1)->gr)
#define GHOST_CHAIN(self) (SCX4R(self)->gpos >= 0 && SOP(self, 0)->has_g && SOP(self, 1)->has_g && SOP(self, 2)->has_g && \
     SOP(self, 0)->gl == G_B1(self) && SOP(self, 1)->gl == G_B2(self) && SOP(self, 2)->gl == G_B3(self) && SOP(self, 2)->gr == G_B4(self))
#define EXPECTED_HITS(self) ((RET(G_B1(self)) || RET(G_B2(self)) || RET(G_B3(self)) || RET(G_B4(self))) ? 1 : 0)
#define OPS_PREPARED(self) ((self)->C1.Status >= Prepared && (self)->C2.Status >= Prepared && (self)->CX3.Status >= Prepared)
#define BITS(x) (*(unsigned long *)&(x))      /* bit pattern of a double (loop invariants may not call d_bits) */
#define TOL_COPIED(self, part) (BITS((part).ReduceResonanceTolerance) == BITS((self)->ReduceResonanceTolerance) && BITS((part).CoefficientTolerance) == BITS((self)->CoefficientTolerance) && \
                                BITS((part).MultiTermCoefficientTolerance) == BITS((self)->MultiTermCoefficientTolerance))
#define ALL_LAST_POS(self) (self)->C1.last_ok, (self)->C1.last_l, (self)->C1.last_r, (self)->C2.last_ok, (self)->C2.last_l, (self)->C2.last_r, \
                           (self)->CX3.last_ok, (self)->CX3.last_l, (self)->CX3.last_r, (self)->CX4.LeftRightBlocks.right.last_pos
//@function Pomerol::TwoParticleGF::prepare() as TwoParticleGF_prepare
//@contract
__CPROVER_requires(__CPROVER_is_fresh(self, sizeof(*self)) && g_self == self)
/* type invariants: the view of CX4 that is walked; every block number of a relation is a block number of the model (bimap.h B3) */
__CPROVER_requires(BiView_wf(&self->CX4.LeftRightBlocks.right))
__CPROVER_requires(self->H.nblocks == self->DM.nblocks && self->C1.kmax == self->H.nblocks && self->C2.kmax == self->H.nblocks && self->CX3.kmax == self->H.nblocks &&
                   self->CX4.LeftRightBlocks.right.kmax == self->H.nblocks)
__CPROVER_requires((!self->C1.has_g || (0 <= self->C1.gl && self->C1.gl < self->C1.kmax && 0 <= self->C1.gr && self->C1.gr < self->C1.kmax)) &&
                   (!self->C2.has_g || (0 <= self->C2.gl && self->C2.gl < self->C2.kmax && 0 <= self->C2.gr && self->C2.gr < self->C2.kmax)) &&
                   (!self->CX3.has_g || (0 <= self->CX3.gl && self->CX3.gl < self->CX3.kmax && 0 <= self->CX3.gr && self->CX3.gr < self->CX3.kmax)))
/* state after the constructor (or after an earlier prepare()) */
__CPROVER_requires(self->Status >= Prepared || (self->Vanishing && self->parts.n == 0))
__CPROVER_requires(0 <= g_pstar && g_pstar < 6 && g_hits == 0 && g_n_new == 0 && !VERIF_thrown)
__CPROVER_requires(g_chain == GHOST_CHAIN(self) && (!g_chain || g_expected == EXPECTED_HITS(self)))
__CPROVER_assigns(self->parts.n, self->parts.last, self->Vanishing, self->Status, g_hits, g_n_new, g_last_new, VERIF_thrown, g_ghost_part, g_other_part, ALL_LAST_POS(self))
/* already prepared: nothing happens */
__CPROVER_ensures(__CPROVER_old(self->Status) >= Prepared ==>
    (!VERIF_thrown && g_n_new == 0 && self->Status == __CPROVER_old(self->Status) && !self->Vanishing == !__CPROVER_old(self->Vanishing) && self->parts.n == __CPROVER_old(self->parts.n)))
/* an operator that is not prepared: exStatusMismatch before anything is created; status unchanged */
__CPROVER_ensures(VERIF_thrown ==> (self->CX4.Status < Prepared || !OPS_PREPARED(self)))
__CPROVER_ensures((__CPROVER_old(self->Status) < Prepared && self->CX4.Status < Prepared) ==> VERIF_thrown)
__CPROVER_ensures(VERIF_thrown ==> (g_n_new == 0 && self->parts.n == 0 && self->Vanishing && self->Status == __CPROVER_old(self->Status)))
/* normal exit */
__CPROVER_ensures((__CPROVER_old(self->Status) < Prepared && !VERIF_thrown) ==> self->Status == Prepared)
/* completeness + uniqueness + C19: a closed ghost chain yields exactly one part iff one of its four blocks is retained; never two parts for one (relation, permutation) */
__CPROVER_ensures((__CPROVER_old(self->Status) < Prepared && !VERIF_thrown) ? ((!g_chain || g_hits == g_expected) && g_hits <= 1) : g_hits == 0)
/* the tolerances of the TwoParticleGF are copied to the part */
__CPROVER_ensures(g_hits == 1 ==> TOL_COPIED(self, g_ghost_part))
/* every created part is in the vector, and Vanishing <=> no part */
__CPROVER_ensures((__CPROVER_old(self->Status) < Prepared && !VERIF_thrown) ==> (self->parts.n == g_n_new && !self->Vanishing == (self->parts.n != 0)))
//@loop 1
__CPROVER_assigns(outer_iter.pos, self->parts.n, self->parts.last, g_hits, g_n_new, g_last_new, VERIF_thrown, g_ghost_part, g_other_part, ALL_LAST_POS(self))
__CPROVER_loop_invariant(outer_iter.v == &self->CX4.LeftRightBlocks.right && CX4NontrivialBlocks == &self->CX4.LeftRightBlocks)
__CPROVER_loop_invariant(0 <= outer_iter.pos && outer_iter.pos <= self->CX4.LeftRightBlocks.right.n)
__CPROVER_loop_invariant(!VERIF_thrown && (outer_iter.pos == 0 || OPS_PREPARED(self)))
__CPROVER_loop_invariant(self->parts.n == g_n_new && g_n_new <= 6UL * (unsigned long)outer_iter.pos)
__CPROVER_loop_invariant((self->CX4.LeftRightBlocks.right.gpos < 0 || outer_iter.pos <= self->CX4.LeftRightBlocks.right.gpos) ? g_hits == 0
                         : ((!g_chain || g_hits == g_expected) && 0 <= g_hits && g_hits <= 1))
__CPROVER_loop_invariant(g_hits != 1 || TOL_COPIED(self, g_ghost_part))
__CPROVER_decreases(self->CX4.LeftRightBlocks.right.n - outer_iter.pos)
//@loop 2
__CPROVER_assigns(p, self->parts.n, self->parts.last, g_hits, g_n_new, g_last_new, VERIF_thrown, g_ghost_part, g_other_part, ALL_LAST_POS(self))
__CPROVER_loop_invariant(p <= 6 && !VERIF_thrown && (p == 0 || OPS_PREPARED(self)))
__CPROVER_loop_invariant(self->parts.n == g_n_new && g_n_new <= 6UL * (unsigned long)outer_iter.pos + p)
__CPROVER_loop_invariant(outer_iter.pos != self->CX4.LeftRightBlocks.right.gpos ? g_hits == __CPROVER_loop_entry(g_hits)
                         : ((long)p <= g_pstar ? g_hits == 0 : ((!g_chain || g_hits == g_expected) && 0 <= g_hits && g_hits <= 1)))
__CPROVER_loop_invariant(g_hits != 1 || TOL_COPIED(self, g_ghost_part))
__CPROVER_decreases(6 - p)
//@loop 3
__CPROVER_assigns(k, include_block_retained)
__CPROVER_loop_invariant(0 <= k && k <= 4)
__CPROVER_loop_invariant(include_block_retained == ((k > 0 && RET(LeftIndices[0].number)) || (k > 1 && RET(LeftIndices[1].number)) || (k > 2 && RET(LeftIndices[2].number)) || (k > 3 && RET(LeftIndices[3].number))))
__CPROVER_decreases(4 - k)
//@end

//@harness h_TPGF_prepare enforce=TwoParticleGF_prepare props=C02,C19 min_obl=3469 timeout=600 reach=5
void h_TPGF_prepare(void)
{
  struct TwoParticleGF *g;
  TwoParticleGF_prepare(g);
  if (VERIF_thrown) REACH("thrown");
  else if (g_n_new == 0) REACH("exit_vanishing");
  else REACH("exit_parts");
}

/* ================================================================================================================
 * Evaluation (TwoParticleGF.h: "Returns the value of the Green's function calculated at a given frequency"; "It is actually a
 * container class for a collection of parts"):  chi(z1,z2,z3) = sum over the parts of part(z1,z2,z3);  0 if Vanishing;
 * chi(n1,n2,n3) = chi(MatsubaraSpacing*(2n1+1), MatsubaraSpacing*(2n2+1), MatsubaraSpacing*(2n3+1))  (fermionic frequencies).
 * The value of ONE part (TwoParticleGFPart::operator(), under contract in tpgfpart.c) is an opaque function of (position in the
 * vector, arguments).  As in susc.c the sum is stated through a MODEL g_sum that the part-evaluation monitor advances by
 * `sum := sum + value` at every call; the loop invariant forces the accumulator to equal the model (bit pattern), the ghost
 * position proves that an arbitrary part is evaluated exactly once (none if Vanishing). */
double __CPROVER_uninterpreted_partval_re(long, double, double, double, double, double, double);
double __CPROVER_uninterpreted_partval_im(long, double, double, double, double, double, double);
cplx g_sum;                       /* model of the running sum */
unsigned long g_sum_re, g_sum_im; /* its bit pattern (loop invariants may not call d_bits) */
cplx g_z1, g_z2, g_z3;            /* the arguments every part must be evaluated at */
long g_evals;                     /* evaluations of the part at the ghost position */
static inline _Bool PartVec_wf(PartVec *v)
{ return v->n <= PV_MAX && __CPROVER_is_fresh(v->items, v->n * sizeof(struct TwoParticleGFPart *)) && (v->gidx == -1 || (0 <= v->gidx && v->gidx < (long)v->n)); }
#define PartVec_begin(v_) ((PartVecIt){ (v_), 0 })
#define PartVec_end(v_) ((PartVecIt){ (v_), (long)(v_)->n })
#define op_ne_PartVecIt_PartVecIt(a, b) ((a)->pos != (b)->pos)
#define PartVecIt_postinc(it) ({ __CPROVER_assert(0 <= (it)->pos && (it)->pos < (long)(it)->v->n, "std::vector: end() is not incremented"); (it)->pos++; })
#define PartVecIt_mul(it) ({ \
  __CPROVER_assert(0 <= (it)->pos && (it)->pos < (long)(it)->v->n, "std::vector: iterator dereferenced only before end()"); \
  (it)->v->last_pos = (it)->pos; \
  &(it)->v->items[(it)->pos]; })
static inline cplx part_value(long k, cplx z1, cplx z2, cplx z3)
{ return cplx_ctor2(__CPROVER_uninterpreted_partval_re(k, z1.re, z1.im, z2.re, z2.im, z3.re, z3.im), __CPROVER_uninterpreted_partval_im(k, z1.re, z1.im, z2.re, z2.im, z3.re, z3.im)); }
struct ComputeAndClearWrap;
struct ComputeAndClearWrap *g_wrap;     /* ComputeAndClearWrap::run(): the wrapper under verification (then g_self is unused) */
cplx TwoParticleGFPart_call_in_run(struct TwoParticleGFPart *part, cplx z1, cplx z2, cplx z3);
cplx TwoParticleGFPart_call(struct TwoParticleGFPart *part, cplx z1, cplx z2, cplx z3)
{
  if (g_wrap) return TwoParticleGFPart_call_in_run(part, z1, z2, z3);
  PartVec *v = &g_self->parts; long k = v->last_pos;
  __CPROVER_assert(0 <= k && k < (long)v->n && part == v->items[k], "C02: the part evaluated is the vector element the iterator is on");
  __CPROVER_assert(C_SAME(z1, g_z1) && C_SAME(z2, g_z2) && C_SAME(z3, g_z3), "C02: every part is evaluated at the frequencies (z1,z2,z3)");
  cplx r = part_value(k, z1, z2, z3);
  g_sum = op_add_cplx_cplx(g_sum, r);
  g_sum_re = d_bits(g_sum.re); g_sum_im = d_bits(g_sum.im);
  if (k == v->gidx) g_evals++;
  REACH("part_eval");
  return r;
}
#define SUM_IS_ZERO (g_sum_re == 0 && g_sum_im == 0 && BITS(g_sum.re) == 0 && BITS(g_sum.im) == 0)
#define EXPECTED_EVALS(self) ((!(self)->Vanishing && (self)->parts.gidx >= 0) ? 1 : 0)

//@rename TwoParticleGF_call/3 => TwoParticleGF_call_z
//@function Pomerol::TwoParticleGF::operator()(std::complex<double>, std::complex<double>, std::complex<double>) const as TwoParticleGF_call_z
//@contract
__CPROVER_requires(__CPROVER_is_fresh(self, sizeof(*self)) && g_self == self)
__CPROVER_requires(g_wrap == (struct ComputeAndClearWrap *)0 && PartVec_wf(&self->parts) && g_evals == 0 && SUM_IS_ZERO && C_SAME(g_z1, z1) && C_SAME(g_z2, z2) && C_SAME(g_z3, z3))
__CPROVER_assigns(g_sum, g_sum_re, g_sum_im, g_evals, self->parts.last_pos)
/* an arbitrary part is evaluated exactly once, none if the function vanishes */
__CPROVER_ensures(g_evals == EXPECTED_EVALS(self))
/* Vanishing => 0; otherwise the sum of the part values (each at (z1,z2,z3): monitor) */
__CPROVER_ensures(self->Vanishing ==> (SUM_IS_ZERO && C_SAME(__CPROVER_return_value, cplx_ctor1(0.0))))
__CPROVER_ensures(C_SAME(__CPROVER_return_value, g_sum))
//@loop 1
__CPROVER_assigns(iter.pos, Value, g_sum, g_sum_re, g_sum_im, g_evals, self->parts.last_pos)
__CPROVER_loop_invariant(iter.v == &self->parts && 0 <= iter.pos && iter.pos <= (long)self->parts.n)
__CPROVER_loop_invariant(BITS(Value.re) == g_sum_re && BITS(Value.im) == g_sum_im && BITS(g_sum.re) == g_sum_re && BITS(g_sum.im) == g_sum_im)
__CPROVER_loop_invariant(g_evals == ((self->parts.gidx >= 0 && iter.pos > self->parts.gidx) ? 1 : 0))
__CPROVER_decreases((long)self->parts.n - iter.pos)
//@end

//@function Pomerol::TwoParticleGF::operator()(long, long, long) const as TwoParticleGF_call_n
//@contract
/* LIMIT: 2*n+1 must be representable (|n| < 2^62) */
__CPROVER_requires(-(1L << 62) <= MatsubaraNumber1 && MatsubaraNumber1 < (1L << 62) && -(1L << 62) <= MatsubaraNumber2 && MatsubaraNumber2 < (1L << 62) &&
                   -(1L << 62) <= MatsubaraNumber3 && MatsubaraNumber3 < (1L << 62))
__CPROVER_requires(__CPROVER_is_fresh(self, sizeof(*self)) && g_self == self)
__CPROVER_requires(g_wrap == (struct ComputeAndClearWrap *)0 && PartVec_wf(&self->parts) && g_evals == 0 && SUM_IS_ZERO)
/* fermionic Matsubara frequencies: z_j = MatsubaraSpacing * (2 n_j + 1) */
__CPROVER_requires(C_SAME(g_z1, op_mul_cplx_double(self->MatsubaraSpacing, (double)(2 * MatsubaraNumber1 + 1))) &&
                   C_SAME(g_z2, op_mul_cplx_double(self->MatsubaraSpacing, (double)(2 * MatsubaraNumber2 + 1))) &&
                   C_SAME(g_z3, op_mul_cplx_double(self->MatsubaraSpacing, (double)(2 * MatsubaraNumber3 + 1))))
__CPROVER_assigns(g_sum, g_sum_re, g_sum_im, g_evals, self->parts.last_pos)
__CPROVER_ensures(g_evals == EXPECTED_EVALS(self))
__CPROVER_ensures(C_SAME(__CPROVER_return_value, g_sum) && (!self->Vanishing || SUM_IS_ZERO))
//@end

//@harness h_TPGF_call_z enforce=TwoParticleGF_call_z props=C02 min_obl=434 timeout=60 reach=2
void h_TPGF_call_z(void) { struct TwoParticleGF *g; cplx z1, z2, z3; TwoParticleGF_call_z(g, z1, z2, z3); REACH("exit"); }

//@harness h_TPGF_call_n enforce=TwoParticleGF_call_n props=C02 min_obl=503 timeout=60 reach=2
void h_TPGF_call_n(void) { struct TwoParticleGF *g; long n1, n2, n3; TwoParticleGF_call_n(g, n1, n2, n3); REACH("exit"); }

/* ================================================================================================================
 * ComputeAndClearWrap::run()  ("An mpi adapter to 1) compute 2pgf terms; 2) convert them to a Matsubara Container; 3) purge terms"):
 *   the part is computed first (once); if `fill`: for every frequency index w  data[w] += part(freqs[w])  exactly once -- ghost index
 *   gidx of the table: data[gidx] == old(data[gidx]) + part(z1,z2,z3 of freqs[gidx]), one access; the table keeps its length; if `clear`:
 *   the part is cleared, once, after all evaluations.  part(...) = TwoParticleGFPart::operator() is an opaque function of the
 *   frequencies (contract in tpgfpart.c).  The OpenMP pragmas are dropped by the extractor (sequential view; the iterations write
 *   disjoint data[w]). */
/* std::vector<freq_tuple> / std::vector<ComplexType>: ghost-element model (as stubs/gvec.h): the element at ONE arbitrary index gidx is
 * a real object, every other index yields a scratch element of arbitrary content (stores to it are forgotten): an over-approximation
 * without heap arrays.  ASSERTED: operator[] inside the vector.  ghits counts the accesses to the ghost element. */
#define FV_MAX 2147483647UL      /* LIMIT: `int wsize = freqs_->size()` wraps for longer lists */
typedef struct FreqTuple { cplx z0, z1, z2; } FreqTuple;
typedef struct FreqVec { unsigned long size; /* ghost */ unsigned long gidx; FreqTuple gelem, scratch; } FreqVec;
typedef struct CplxVec { unsigned long size; /* ghost */ unsigned long gidx, ghits; cplx gelem, scratch; } CplxVec;
static inline unsigned long FreqVec_size(FreqVec *v) { return v->size; }
static inline FreqTuple *FreqVec_at(FreqVec *v, unsigned long i)
{
  __CPROVER_assert(i < v->size, "std::vector<freq_tuple>::operator[] inside the vector");
  if (i == v->gidx) return &v->gelem;
  v->scratch.z0 = cplx_ctor2(nondet_double(), nondet_double()); v->scratch.z1 = cplx_ctor2(nondet_double(), nondet_double()); v->scratch.z2 = cplx_ctor2(nondet_double(), nondet_double());
  return &v->scratch;
}
#define FreqTuple_get0(t) (&(t)->z0)
#define FreqTuple_get1(t) (&(t)->z1)
#define FreqTuple_get2(t) (&(t)->z2)
static inline cplx *CplxVec_at(CplxVec *v, unsigned long i)
{
  __CPROVER_assert(i < v->size, "std::vector<ComplexType>::operator[] inside the vector");
  if (i == v->gidx) { v->ghits++; return &v->gelem; }
  v->scratch = cplx_ctor2(nondet_double(), nondet_double());
  return &v->scratch;
}
static inline unsigned long CplxVec_size(CplxVec *v) { return v->size; }
//@type std::vector<boost::(tuples::)?tuple<std::complex<double>, std::complex<double>, std::complex<double>.*|(Pomerol::)?freq_vec_t|std::vector<(Pomerol::)?freq_tuple(, .*)?> => FreqVec ptr
//@type boost::(tuples::)?tuple<std::complex<double>, std::complex<double>, std::complex<double>.*|(Pomerol::)?freq_tuple|boost::tuples::cons<std::complex<double>, boost::tuples::cons<std::complex<double>, boost::tuples::cons<std::complex<double>, boost::tuples::null_type> ?> ?> => FreqTuple ptr
//@type std::vector<std::complex<double>(, std::allocator<std::complex<double> ?>)?>|std::vector<(Pomerol::)?ComplexType(, .*)?> => CplxVec ptr
//@free get~element<0UL => FreqTuple_get0
//@free get~element<1UL => FreqTuple_get1
//@free get~element<2UL => FreqTuple_get2
//@struct Pomerol::ComputeAndClearWrap
/* callee contracts of the part (TwoParticleGFPart::compute: tpgfcompute.c; operator(): tpgfpart.c -- throws unless Computed; clear()) */
static inline void TwoParticleGFPart_compute(struct TwoParticleGFPart *p) { p->n_compute++; p->Status = Computed; }
static inline void TwoParticleGFPart_clear(struct TwoParticleGFPart *p) { p->n_clear++; p->evals_at_clear = p->n_eval; REACH("clear"); }
cplx TwoParticleGFPart_call_in_run(struct TwoParticleGFPart *part, cplx z1, cplx z2, cplx z3)
{
  __CPROVER_assert(part == g_wrap->p, "C02: the wrapper evaluates its own part");
  __CPROVER_assert(part->n_compute == 1 && part->Status == Computed && part->n_clear == 0, "C02: the part is evaluated after compute() and before clear()");
  part->n_eval++;
  REACH("part_eval_in_run");
  return part_value(0, z1, z2, z3);
}
unsigned long g_old_re, g_old_im, g_new_re, g_new_im;   /* bit patterns of data[gidx] before / expected after (calls are not allowed in loop invariants) */
#define W_GHOST(self) ((self)->data_->gidx < (self)->data_->size)
#define W_DATA(self) ((self)->data_->gelem)
#define W_FREQ(self) ((self)->freqs_->gelem)
//@function Pomerol::ComputeAndClearWrap::run() as ComputeAndClearWrap_run
//@contract
__CPROVER_requires(__CPROVER_is_fresh(self, sizeof(*self)) && g_wrap == self)
__CPROVER_requires(__CPROVER_is_fresh(self->p, sizeof(*self->p)) && __CPROVER_is_fresh(self->freqs_, sizeof(*self->freqs_)) && __CPROVER_is_fresh(self->data_, sizeof(*self->data_)))
__CPROVER_requires(self->freqs_->size <= FV_MAX)
/* how TwoParticleGF::compute builds the wrapper: the table has one slot per frequency; the same ghost index in both vectors */
__CPROVER_requires(self->data_->size == self->freqs_->size && self->data_->gidx == self->freqs_->gidx)
__CPROVER_requires(self->p->n_compute == 0 && self->p->n_eval == 0 && self->p->n_clear == 0 && self->data_->ghits == 0)
__CPROVER_requires(!W_GHOST(self) || (g_old_re == d_bits(W_DATA(self).re) && g_old_im == d_bits(W_DATA(self).im)))
__CPROVER_requires(!W_GHOST(self) || (g_new_re == d_bits(op_add_cplx_cplx(W_DATA(self), part_value(0, W_FREQ(self).z0, W_FREQ(self).z1, W_FREQ(self).z2)).re) &&
                                      g_new_im == d_bits(op_add_cplx_cplx(W_DATA(self), part_value(0, W_FREQ(self).z0, W_FREQ(self).z1, W_FREQ(self).z2)).im)))
__CPROVER_assigns(self->p->n_compute, self->p->Status, self->p->n_eval, self->p->n_clear, self->p->evals_at_clear, self->data_->ghits, self->data_->gelem, self->data_->scratch, self->freqs_->scratch)
/* computed first, once; evaluated once per frequency iff fill; cleared once, after the evaluations, iff clear */
__CPROVER_ensures(self->p->n_compute == 1 && self->p->n_eval == (self->fill_ ? self->freqs_->size : 0UL))
__CPROVER_ensures(self->p->n_clear == (self->clear_ ? 1UL : 0UL) && (!self->clear_ || self->p->evals_at_clear == self->p->n_eval))
/* the ghost slot: accessed once and equal to old + part(freqs[gidx]) iff fill, untouched otherwise; length unchanged (frame) */
__CPROVER_ensures(!W_GHOST(self) || (self->fill_ ? (self->data_->ghits == 1 && BITS(W_DATA(self).re) == g_new_re && BITS(W_DATA(self).im) == g_new_im)
                                                 : (self->data_->ghits == 0 && BITS(W_DATA(self).re) == g_old_re && BITS(W_DATA(self).im) == g_old_im)))
//@loop 1
__CPROVER_assigns(w, self->p->n_eval, self->data_->ghits, self->data_->gelem, self->data_->scratch, self->freqs_->scratch)
__CPROVER_loop_invariant(0 <= w && w <= wsize && (unsigned long)wsize == self->freqs_->size && self->p->n_eval == (unsigned long)w)
__CPROVER_loop_invariant(!W_GHOST(self) || ((unsigned long)w <= self->data_->gidx
       ? (self->data_->ghits == 0 && BITS(W_DATA(self).re) == g_old_re && BITS(W_DATA(self).im) == g_old_im)
       : (self->data_->ghits == 1 && BITS(W_DATA(self).re) == g_new_re && BITS(W_DATA(self).im) == g_new_im)))
__CPROVER_decreases(wsize - w)
//@end

//@harness h_CACW_run enforce=ComputeAndClearWrap_run props=C02,C17 min_obl=1233 timeout=60 reach=3
void h_CACW_run(void) { struct ComputeAndClearWrap *wr; ComputeAndClearWrap_run(wr); REACH("exit"); }

/* ================================================================================================================
 * TwoParticleGF::compute(clear, freqs, comm)  ("Actually computes the parts and fill the internal cache of precomputed values"):
 * per-rank sequential view.  Status < Prepared: exStatusMismatch.  Already computed, or Vanishing: an EMPTY table (not freqs.size()
 * zeros).  Otherwise: the table has freqs.size() slots (zero-filled); one ComputeAndClearWrap per part, in order, each built from
 * (&freqs, &table, parts[i], clear, fill = !freqs.empty(), complexity 1) -- ghost part: exactly one; the skeleton is run once, after all
 * wrappers are in place; the table is reduced once onto rank 0 over freqs.size() elements, both buffers being the data() of vectors of
 * that length (C17: valid for an empty frequency list too -- the pre-fix `&m_data[0]` fails the bounds assert of operator[]); the
 * reduced table is returned on rank 0 (zeros elsewhere); unless `clear`, both term lists of every part are broadcast from the rank that
 * ran it (job_map[p]) and the part is marked Computed; Status = Computed.
 * mpi_skel::run (C16, mpi.c) and boost::mpi::reduce are contract stubs. */
#include "../stubs/mpi.h"
#undef swap          /* mpi.h: generic std::swap for the dispatcher types; here swap is the function for CplxVec below */
void VERIF_mpi_store_hook(MpiReq *dst, MpiReq src) { }
void VERIF_mpi_send_hook(Comm *c, int dest, int tag, _Bool has_value, int value) { }
void VERIF_mpi_post_hook(int source, int tag, int *buf) { }
void VERIF_mpi_deliver_hook(MpiReq *r, int value) { }
//@type std::vector<boost::(tuples::)?tuple<(Pomerol::)?ComplexType, (Pomerol::)?ComplexType, (Pomerol::)?ComplexType> ?> => FreqVec ptr
//@type boost::mpi::communicator => Comm ptr
//@type pMPI::mpi_skel<(Pomerol::)?ComputeAndClearWrap> => struct Skel ptr
//@type std::vector<(Pomerol::)?ComputeAndClearWrap(, .*)?> => WrapVec ptr
//@type std::map<pMPI::JobId, pMPI::WorkerId>|std::map<int, int(, .*)?> => IntMap ptr
//@type std::map<int, int>::key_type => int scalar
//@type std::plus<std::complex<double> ?>|std::plus<(Pomerol::)?ComplexType> => int scalar
//@free broadcast(Comm,TermListNR,int) => broadcast_nr
//@free broadcast(Comm,TermListR,int) => broadcast_r
/* `&cplx_ctor1(0.0)` is printed for the fill value of vector(n, value): the temporary must be addressable */
#define cplx_ctor1(x_) (*(cplx[1]){ (cplx_ctor1)(x_) })

/* NB: ghost POINTERS are only compared, never dereferenced (a pointer CBMC knows through a requires-equality or a havocked static
 * dereferences into every object of the program: out of memory); what the monitors must read travels in scalars / in the model objects. */
FreqVec *g_freqs; Comm *g_comm; _Bool g_clear;      /* the arguments of compute() */
unsigned long g_nfreq;                              /* = freqs.size() */
unsigned long g_tidx;                               /* ghost index of every table created in compute() */
CplxVec *g_table;                                   /* the table the wrappers point to */
unsigned long g_n_push, g_push_hits, g_n_run, g_n_reduce, g_n_barrier;
cplx g_reduced;                                     /* value the reduction delivers at the ghost index (root) */
int g_owner;                                        /* rank that ran the ghost part: job_map[gidx] */
/* ---- std::vector<ComplexType> as a local table */
static inline CplxVec CplxVec_ctor0(void) { CplxVec v; v.size = 0; v.gidx = g_tidx; v.ghits = 0; v.gelem = (cplx_ctor1)(0.0); v.scratch = (cplx_ctor1)(0.0); return v; }
static inline void CplxVec_resize(CplxVec *v, unsigned long n, cplx val) { if (v->size <= v->gidx) v->gelem = val; v->size = n; }   /* new slots = val */
static inline CplxVec CplxVec_ctor2(unsigned long n, cplx *val) { CplxVec v = CplxVec_ctor0(); v.size = n; v.gelem = *val; return v; }
static inline cplx *CplxVec_data(CplxVec *v) { return &v->gelem; }   /* valid for an empty vector too */
#include <stddef.h>
/* the vector a buffer pointer belongs to (the tables are local objects: offset inside the object = offset of the member) */
static inline CplxVec *vec_of(cplx *p)
{
  long off = (long)__CPROVER_POINTER_OFFSET(p);
  __CPROVER_assert(off == (long)offsetof(CplxVec, gelem) || off == (long)offsetof(CplxVec, scratch), "C17: the buffer handed to reduce is the storage of a vector");
  return (CplxVec *)((char *)p - off);
}
static inline void swap(CplxVec *a, CplxVec *b) { CplxVec t = *a; *a = *b; *b = t; }
/* ---- operator[] of `parts` (ghost-element view) */
static inline struct TwoParticleGFPart **PartVec_at(PartVec *v, unsigned long i)
{
  __CPROVER_assert(i < v->n, "std::vector<TwoParticleGFPart*>::operator[] inside the vector");
  if ((long)i == v->gidx) return &v->gitem;
  __CPROVER_havoc_object(v->oitem);
  return &v->oitem;
}
/* ---- the skeleton */
typedef struct WrapVec { unsigned long n; } WrapVec;
struct Skel { WrapVec parts; };
static inline struct Skel Skel_ctor0(void) { struct Skel s; s.parts.n = 0; return s; }
static inline void WrapVec_reserve(WrapVec *v, unsigned long n) { }
//@function Pomerol::ComputeAndClearWrap::ComputeAndClearWrap(std::vector<boost::tuples::tuple<std::complex<double>, std::complex<double>, std::complex<double>, boost::tuples::null_type, boost::tuples::null_type, boost::tuples::null_type, boost::tuples::null_type, boost::tuples::null_type, boost::tuples::null_type, boost::tuples::null_type>, std::allocator<boost::tuples::tuple<std::complex<double>, std::complex<double>, std::complex<double>, boost::tuples::null_type, boost::tuples::null_type, boost::tuples::null_type, boost::tuples::null_type, boost::tuples::null_type, boost::tuples::null_type, boost::tuples::null_type> > > const*, std::vector<std::complex<double>, std::allocator<std::complex<double> > >*, Pomerol::TwoParticleGFPart*, bool, bool, int) as ComputeAndClearWrap_ctor6
//@end
static inline void WrapVec_push_back(WrapVec *v, struct ComputeAndClearWrap w)
{
  PartVec *pv = &g_self->parts;
  /* wrapper number k is built for part number k, from the arguments of compute() and ONE table */
  __CPROVER_assert(v->n < pv->n, "C02: at most one wrapper per part");
  __CPROVER_assert(w.freqs_ == g_freqs && w.clear_ == g_clear && w.fill_ == (g_nfreq > 0) && w.complexity == 1, "C02: wrapper = (&freqs, ., ., clear, !freqs.empty(), complexity 1)");
  if (v->n == 0) g_table = w.data_;
  __CPROVER_assert(w.data_ == g_table && w.data_->size == g_nfreq, "C02: every wrapper fills the same table, which has freqs.size() slots");
  if ((long)v->n == pv->gidx) { __CPROVER_assert(w.p == pv->gitem, "C02: wrapper k evaluates parts[k]"); g_push_hits++; }
  g_n_push++; v->n++;
  REACH("push wrapper");
}
/* mpi_skel<ComputeAndClearWrap>::run(comm, verbose) (C16): every wrapper is run on some rank; the wrappers run HERE add into the table
 * (length unchanged: contract of ComputeAndClearWrap::run above; the CONTENTS of the table after the run are not modelled: their only
 * consumer is reduce, whose result is opaque); returns the job -> rank map. */
static inline IntMap Skel_run(struct Skel *s, Comm *comm, _Bool verbose)
{
  __CPROVER_assert(s->parts.n == g_self->parts.n && comm == g_comm, "C02: the skeleton is run on compute()'s communicator after a wrapper has been added for every part");
  g_n_run++;
  IntMap m; m.size = nondet_ulong(); m.gkey = g_self->parts.gidx; m.gpresent = 1; m.gval = g_owner; m.other = 0; m.inv_pool = 0; m.gpos = 0;
  REACH("skel.run");
  return m;
}
/* boost::mpi::reduce(comm, in_values, n, out_values, op, root) (collectives/reduce.hpp): ASSERTED: both buffers hold n elements;
 * ASSUMED: on the root out_values[0..n) receive the element-wise combination, on every other rank out_values is not written. */
static inline void reduce(Comm *comm, cplx *in, int n, cplx *out, int op, int root)
{
  __CPROVER_assert(comm == g_comm && root == 0, "C02: reduced onto rank 0 of compute()'s communicator");
  CplxVec *vi = vec_of(in), *vo = vec_of(out);
  __CPROVER_assert(vi == g_table || g_table == (CplxVec *)0, "C02: the table filled by the wrappers is the one that is reduced");
  __CPROVER_assert(n >= 0 && (unsigned long)n == vi->size && (unsigned long)n == vo->size && (unsigned long)n == g_nfreq,
                   "C17: both buffers hold exactly the n = freqs.size() elements that are reduced");
  if (comm->rank_ == root) vo->gelem = g_reduced;
  g_n_reduce++;
  REACH("reduce");
}
static inline void broadcast_nr(Comm *comm, TermListNR *t, int root) { __CPROVER_assert(comm == g_comm, "C02: broadcast on compute()'s communicator"); t->n_bcast++; t->root = root; }
static inline void broadcast_r(Comm *comm, TermListR *t, int root) { __CPROVER_assert(comm == g_comm, "C02: broadcast on compute()'s communicator"); t->n_bcast++; t->root = root; REACH("broadcast terms"); }
#define Comm_barrier(c_) ((void)(g_n_barrier++))

#define GP(self) ((self)->parts.gitem)
#define HAS_GP(self) ((self)->parts.gidx >= 0)
#define CASE_RUN(self, st) ((st) >= Prepared && (st) < Computed && !(self)->Vanishing)
//@function Pomerol::TwoParticleGF::compute(bool, std::vector<boost::tuples::tuple<std::complex<double>, std::complex<double>, std::complex<double>, boost::tuples::null_type, boost::tuples::null_type, boost::tuples::null_type, boost::tuples::null_type, boost::tuples::null_type, boost::tuples::null_type, boost::tuples::null_type>, std::allocator<boost::tuples::tuple<std::complex<double>, std::complex<double>, std::complex<double>, boost::tuples::null_type, boost::tuples::null_type, boost::tuples::null_type, boost::tuples::null_type, boost::tuples::null_type, boost::tuples::null_type, boost::tuples::null_type> > > const&, boost::mpi::communicator const&) as TwoParticleGF_compute
//@contract
__CPROVER_requires(__CPROVER_is_fresh(self, sizeof(*self)) && g_self == self)
__CPROVER_requires(__CPROVER_is_fresh(freqs, sizeof(*freqs)) && __CPROVER_is_fresh(comm, sizeof(*comm)) && g_freqs == freqs && g_comm == comm && g_clear == clear && g_nfreq == freqs->size)
__CPROVER_requires(freqs->size <= FV_MAX)      /* LIMIT: the element count handed to reduce is an int */
__CPROVER_requires(self->parts.n <= PV_MAX && (self->parts.gidx == -1 || (0 <= self->parts.gidx && self->parts.gidx < (long)self->parts.n)))
__CPROVER_requires(__CPROVER_is_fresh(self->parts.gitem, sizeof(struct TwoParticleGFPart)) && __CPROVER_is_fresh(self->parts.oitem, sizeof(struct TwoParticleGFPart)))
__CPROVER_requires(GP(self)->NonResonantTerms.n_bcast == 0 && GP(self)->ResonantTerms.n_bcast == 0)
__CPROVER_requires(g_n_push == 0 && g_push_hits == 0 && g_n_run == 0 && g_n_reduce == 0 && g_n_barrier == 0 && g_table == (CplxVec *)0 && !VERIF_thrown)
__CPROVER_assigns(self->Status, VERIF_thrown, g_n_push, g_push_hits, g_n_run, g_n_reduce, g_n_barrier, g_table,
                  __CPROVER_object_whole(self->parts.gitem), __CPROVER_object_whole(self->parts.oitem))
/* Status < Prepared: exception, nothing done */
__CPROVER_ensures(VERIF_thrown == (__CPROVER_old(self->Status) < Prepared))
__CPROVER_ensures(VERIF_thrown ==> (self->Status == __CPROVER_old(self->Status) && g_n_push == 0 && g_n_run == 0 && g_n_reduce == 0))
/* already computed / vanishing: an empty table, no communication */
__CPROVER_ensures((!VERIF_thrown && !CASE_RUN(self, __CPROVER_old(self->Status))) ==> (__CPROVER_return_value.size == 0 && g_n_push == 0 && g_n_run == 0 && g_n_reduce == 0 && g_n_barrier == 0))
__CPROVER_ensures((!VERIF_thrown && __CPROVER_old(self->Status) >= Computed) ==> self->Status == __CPROVER_old(self->Status))
__CPROVER_ensures((!VERIF_thrown && __CPROVER_old(self->Status) < Computed) ==> self->Status == Computed)
/* the real work */
__CPROVER_ensures(CASE_RUN(self, __CPROVER_old(self->Status)) ==> (__CPROVER_return_value.size == freqs->size && g_n_push == self->parts.n && g_push_hits == (HAS_GP(self) ? 1UL : 0UL) &&
                                                                   g_n_run == 1 && g_n_reduce == 1))
__CPROVER_ensures((CASE_RUN(self, __CPROVER_old(self->Status)) && g_tidx < freqs->size) ==>
                  C_SAME(__CPROVER_return_value.gelem, comm->rank_ == 0 ? g_reduced : (cplx_ctor1)(0.0)))
__CPROVER_ensures((CASE_RUN(self, __CPROVER_old(self->Status)) && HAS_GP(self)) ==> (clear
      ? (GP(self)->NonResonantTerms.n_bcast == 0 && GP(self)->ResonantTerms.n_bcast == 0 && GP(self)->Status == __CPROVER_old(GP(self)->Status))
      : (GP(self)->NonResonantTerms.n_bcast == 1 && GP(self)->ResonantTerms.n_bcast == 1 && GP(self)->NonResonantTerms.root == g_owner && GP(self)->ResonantTerms.root == g_owner &&
         GP(self)->Status == Computed)))
//@loop 1
__CPROVER_assigns(i, skel.parts.n, g_n_push, g_push_hits, g_table, __CPROVER_object_whole(self->parts.oitem))
__CPROVER_loop_invariant(i <= self->parts.n && skel.parts.n == i && g_n_push == i && g_push_hits == ((HAS_GP(self) && (long)i > self->parts.gidx) ? 1UL : 0UL))
__CPROVER_loop_invariant(m_data.size == freqs->size && (i == 0 ? g_table == (CplxVec *)0 : g_table == &m_data))
__CPROVER_decreases(self->parts.n - i)
//@loop 2
__CPROVER_assigns(p, job_map.size, job_map.gpresent, job_map.gval, job_map.other, __CPROVER_object_whole(self->parts.gitem), __CPROVER_object_whole(self->parts.oitem))
__CPROVER_loop_invariant(p <= self->parts.n && job_map.gpresent && job_map.gval == g_owner && job_map.gkey == self->parts.gidx)
__CPROVER_loop_invariant(!HAS_GP(self) || ((long)p <= self->parts.gidx
      ? (GP(self)->NonResonantTerms.n_bcast == 0 && GP(self)->ResonantTerms.n_bcast == 0 && GP(self)->Status == __CPROVER_loop_entry(GP(self)->Status))
      : (GP(self)->NonResonantTerms.n_bcast == 1 && GP(self)->ResonantTerms.n_bcast == 1 && GP(self)->NonResonantTerms.root == g_owner && GP(self)->ResonantTerms.root == g_owner &&
         GP(self)->Status == Computed)))
__CPROVER_decreases(self->parts.n - p)
//@end

//@harness h_TPGF_compute enforce=TwoParticleGF_compute props=C02,C17 min_obl=1407 timeout=120 reach=6
void h_TPGF_compute(void)
{
  struct TwoParticleGF *g; _Bool clear; FreqVec *f; Comm *c;
  TwoParticleGF_compute(g, clear, f, c);
  if (VERIF_thrown) REACH("thrown"); else REACH("exit");
}

/* ================================================================ what is / is not proved, assumptions, mutation record
 * MODEL DECISIONS
 *  - The block maps of C1, C2, CX3 are only looked up in prepare(): FieldOperator::getLeftIndex / getRightIndex are CALLEE CONTRACTS
 *    (one-to-one partner look-up, stated point-wise against ONE ghost relation per operator), not extracted: with the three bimaps as
 *    arrays (stubs/bimap.h) the harness exceeded 15 min / 8 GB.  Only CX4's right view, which prepare() walks, is a real view.
 *  - DensityMatrix::isRetained is an opaque oracle of the block number (ghost array g_retained[]); getPart() of Hamiltonian / DensityMatrix /
 *    FieldOperator return opaque handles and assert their argument to be a block / a left block of a relation.
 *  - Completeness is stated for a CLOSED ghost chain <1|O1|2><2|O2|3><3|O3|4><4|CX4|1> (arbitrary relations, arbitrary permutation):
 *    exactly one part iff one of the four blocks is retained.  Soundness ("nothing else") is the monitor of `new TwoParticleGFPart`:
 *    every part created has such a chain (witness relations), a retained block and the documented constituents.
 *  - C1, C2, CX3, CX4 are embedded objects: aliasing of two operator arguments is covered as "two operators with equal contents".
 *  - The inner loops (p < 6, k < 4) carry loop contracts (goto-instrument refuses un-contracted loops inside a contracted one).
 *  - compute(): mpi_skel::run, boost::mpi::reduce and the term-list broadcasts are contract stubs; the contents of the table after the run
 *    are not modelled (the reduce result is opaque).  NOT proved: anything about the values that reach the table across ranks (C06 / C16).
 *  - LIMITS: freqs.size() <= INT_MAX (`int wsize`, `int` count of reduce); |n| < 2^62 in operator()(long,long,long).
 * OBSERVATION (documented behaviour, not a defect): compute() returns an EMPTY table, not freqs.size() zeros, when the function vanishes or
 *    was computed before; on ranks != 0 the returned table is all zeros.
 *
 * MUTANTS (scratch copies of /repo)                                                        caught by
 *  h_TPGF_prepare  one of the four isRetained tests dropped (k!=2 && ...)                   loop_invariant_step.2/.4/.10/.12 (k-loop: OR of all four)
 *                  OperatorPartAtPosition(p,1,..) twice (perm[1] used twice)                new-part monitor "operator parts", getPartFromLeftIndex pre-condition
 *                  H.getPart(L[1]), H.getPart(L[0]) swapped                                 new-part monitor "Hamiltonian parts of the blocks 1,2,3,4"
 *                  p<6 -> p<5                                                               loop_invariant_step.21 (completeness at the ghost permutation)
 *                  CoefficientTolerance := MultiTermCoefficientTolerance                    loop_invariant_step.8/.16 (tolerances copied)
 *                  getRightIndex(p,0,L[1]) in the closing test                              postcondition.4/.6/.7 + monitor (relations, C19, parts)
 *                  first/second of the CX4 relation swapped                                 monitor (relations of O1/O3, all constituents), loop_invariant_step.7/.15
 *                  `if(!include_block_retained) continue;` dropped                          monitor "C19: no part for a stripe of discarded blocks", loop_invariant_step.7/.15
 *  h_TPGF_call_z   part evaluated at (z1,z3,z2)                                             evaluation monitor "evaluated at the frequencies (z1,z2,z3)"
 *                  Value = instead of +=                                                    loop invariant (accumulator == model)
 *                  Vanishing returns 1.0                                                    postcondition.2/.3
 *  h_TPGF_call_n   2n instead of 2n+1 for the second frequency; arguments swapped           evaluation monitor
 *  h_CACW_run      = instead of +=; get<1>/get<2> swapped                                   loop_invariant_step.2
 *                  w < wsize-1                                                              postcondition.1/.3
 *                  clear() iff fill_; clear() inside the fill branch                        postcondition.2
 *                  p->compute() dropped                                                     postcondition.1, monitor "evaluated after compute()"
 *  h_TPGF_compute  pre-fix D12: reduce(comm, &m_data[0], .., &m_data2[0], ..)               CplxVec_at.assertion.1 "operator[] inside the vector" (empty list)
 *                  resize(freqs.size()+1); m_data2(parts.size())                            postcondition.6, reduce monitor (n elements), wrapper monitor
 *                  parts[0] for every wrapper                                               wrapper monitor "wrapper k evaluates parts[k]"
 *                  if (clear) broadcast                                                     postcondition.8
 *                  broadcast root 0 instead of job_map[p]                                   loop_invariant_step.5
 *                  std::swap dropped                                                        postcondition.7 (returned table = reduced table on rank 0)
 *                  `if (Status >= Computed) return` dropped                                 postcondition.3/.4
 */
