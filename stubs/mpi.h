/* mpi.h -- sequential, per-rank model of boost::mpi point-to-point communication and of the STL
 * containers used by the job dispatcher (include/mpi_dispatcher/*.hpp, src/mpi_dispatcher/*.cpp).
 *
 * SCOPE (C16): per-rank sequential bookkeeping under an ASSUMED sequential MPI contract.  There is
 * no second rank, no message queue, no non-overtaking rule, no fairness: a posted receive simply
 * "may complete" at any later test().  Nothing here explores schedules.
 *
 * boost::mpi::request (Boost 1.83, /usr/include/boost/mpi/request.hpp):
 *   l. 39   request();                                   "Constructs a NULL request."
 *   l.105   optional<status> test() { return active() ? m_handler->test() : optional<status>(); }
 *   l.111   void cancel() { if (m_handler) { m_handler->cancel(); } m_preserved.reset(); }
 *   l.124   bool active() const { return bool(m_handler) && m_handler->active(); }
 *   => a default-constructed request and a request whose handler is no longer active test EMPTY.
 *   ASSUMED (request.cpp, trivial_handler::active() = `m_request != MPI_REQUEST_NULL`, and MPI-3.1
 *   section 3.7.3: a successful MPI_Test sets the request handle to MPI_REQUEST_NULL): once test()
 *   has returned a status the request is inactive.  cancel() on a trivial handler only calls
 *   MPI_Cancel: recorded in a ghost flag, the request stays as it is.
 *   ASSUMED (MPI matching): the status of a completed receive posted with a specific source / tag
 *   carries that source / tag; with MPI_ANY_TAG (-1) the tag is arbitrary.
 *   BUFFER OWNERSHIP (MPI-3.1 section 3.7.2: between posting a non-blocking receive and the completion reported by test/wait the
 *   program must not access the receive buffer; the library may write it at any moment in between).  The model lets the library
 *   write the message into the buffer at one of the two extreme moments, chosen nondeterministically per receive:
 *     EAGER  -- during irecv itself (the message was already queued), or
 *     LATE   -- when test() reports the completion;
 *   the request remembers the choice (`eager`) and the message (`msg`).  A program store into the buffer between the two
 *   moments therefore destroys an eagerly delivered message: contracts state "eager => buffer == msg" while the receive is
 *   pending and "buffer == msg" at completion.  Nothing is assumed about WHEN a message arrives.
 *   "Arbitrary" = the ghost prophecy variables MPI_next_tag (tag reported at the next ANY_TAG completion), MPI_next_value /
 *   MPI_next_eager (payload / delivery moment of the next receive that is posted with a buffer); nondeterministic, consumed and
 *   re-havocked at each use, so that a contract can name the incoming message.
 * boost::mpi::communicator: rank(), size(), send (blocking, returns), irecv (returns an ACTIVE request).
 *   send is a MONITOR: ghost log (below) + a hook VERIF_mpi_send_hook() that the spec file defines.
 *   NOT asserted: validity of the destination rank (0 <= dest < size()).
 *
 * Ghost counter MPI_n_outstanding = receives posted (irecv) minus receives reported complete (test()).
 *   ASSUMED (bookkeeping identity of this model): a request that is active has been posted and has
 *   not completed, hence MPI_n_outstanding >= 1 whenever test() finds an active request.
 *
 * Containers.  No quantifiers: every container carries ONE ghost value / key / index chosen by the
 * harness (arbitrary => the statement holds for all).
 *   std::stack<int>      size + top value + ghost counter gcount = number of entries equal to gval.
 *                        The entries below the top are ABSTRACT: after pop() the new top is an arbitrary
 *                        value consistent with the counter (this over-approximates the array model: LIFO order
 *                        of the lower entries is forgotten, which no C16 obligation uses).
 *                        ASSERTED: top()/pop() on a non-empty stack.
 *                        ASSUMED (definition of gcount): gcount <= size; gcount==0 => top != gval; gcount==size => top == gval.
 *   std::vector<int|bool|request>   array + size, ASSERTED index < size at operator[].
 *                        vector<request> tagged `nobuf`: element invariant "posted without receive buffer, for a specific tag", ASSUMED at
 *                        operator[], ASSERTED by the spec's store monitor at every request assignment of the master.
 *   std::map<K,int>      ghost-key model: presence bit + mapped value for ONE ghost key, size counter;
 *                        operator[] default-constructs (0) and inserts a missing key; every other key yields an
 *                        arbitrary value (stores to it are forgotten = over-approximation).
 *   std::accumulate(vector<bool>::begin(), end(), 0, plus<int>)  = number of true entries.  Stated without a
 *                        quantifier as: 0 <= r <= size;  r == size => entry[gidx] is true (ghost index, arbitrary);
 *                        r < size => entry[VERIF_acc_witness] is false (Skolem witness chosen by the stub).
 *
 *   std::map iteration (begin(), ++, ->first/->second): abstract walk over `size` positions.  ASSERTED: dereference /
 *                        increment only before end().  ASSUMED (std::map, point-wise against the ghost key): the ghost key,
 *                        if present, sits at exactly one position `gpos`; keys before it are smaller, keys after it larger.
 *   std::vector<int>(n)  n zero-initialised entries (calloc).
 *   boost::mpi::broadcast(comm, std::vector<int>&, root)  (serialized broadcast of ONE vector object, broadcast.hpp):
 *                        on the root the vector is only read -- the model records its length and its entry at the ghost
 *                        index MPI_bcast_gidx in MPI_bcast_len[k] / MPI_bcast_gval[k] (k = ordinal of the broadcast);
 *                        on every other rank the vector is REPLACED by "the root's vector": arbitrary length
 *                        MPI_bcast_len[k], arbitrary content with entry MPI_bcast_gval[k] at the ghost index, tagged with pool
 *                        MPI_bcast_pool[k] (prophecy ghosts: a contract states what it assumes about the root's data).
 *
 * Pools (type invariant of MPIMaster, NOT a guarantee of a dependency): worker_pool and task_numbers are
 *   sequences of pairwise DISTINCT ids (pre-condition of the MPIMaster constructors; true by construction for
 *   _autorange_workers / _autorange_tasks / the permutation built in mpi_skel::run).  A pool t is described by two
 *   uninterpreted functions  pool_id(t,pos) = the id at position pos,  pool_idx(t,id) = position of id or -1,
 *   with  -1 <= pool_idx(t,id) < VERIF_pool_size[t]  and  pool_idx(t,id) >= 0 => pool_id(t,pool_idx(t,id)) == id.
 *   These Skolem functions are instantiated point-wise by the stubs of containers TAGGED with the pool:
 *     vector tagged `pool`     : at(i):  data[i] == pool_id(t,i)  and  pool_idx(t,data[i]) == i   (distinctness)
 *     stack  tagged `pool`     : every entry is a member: ASSERTED at push, ASSUMED at top()       (container: what comes out was put in)
 *     map    tagged `inv_pool` : a member key k is present with value pool_idx(t,k)  (established by
 *                                MPIMaster::fill_stack_, proved there at the ghost key; only set this tag in contracts
 *                                of functions that do not store through operator[] of that map)
 */
#ifndef VERIF_MPI_H
#define VERIF_MPI_H
#include "common.h"
#include <stdlib.h>

#define MPI_MAXN 2147483647UL        /* container sizes fit the `int` loop counters used by the dispatcher */
#define MPI_ANY_TAG_ (-1)

/* ------------------------------------------------------------------ pools */
long __CPROVER_uninterpreted_pool_idx(int pool, int id);
int  __CPROVER_uninterpreted_pool_id(int pool, long pos);
#define POOL_IDX(t, id) __CPROVER_uninterpreted_pool_idx((t), (id))
#define POOL_ID(t, pos) __CPROVER_uninterpreted_pool_id((t), (pos))
unsigned long VERIF_pool_size[3];
_Bool VERIF_pool_sealed[3];   /* ghost: the pool facts of vectors tagged t are in force (off while such a vector is being FILLED, e.g. in _autorange_*) */
/* definition of the Skolem functions, instantiated at one id */
static inline long pool_idx_def(int t, int id)
{
  long r = POOL_IDX(t, id);
  __CPROVER_assume(-1 <= r && (r < 0 || (unsigned long)r < VERIF_pool_size[t]));
  __CPROVER_assume(r < 0 || POOL_ID(t, r) == id);
  return r;
}

/* ------------------------------------------------------------------ std::stack<int> */
typedef struct IntStack {
  unsigned long size;
  int top;                 /* value of the top entry (meaningful iff size > 0) */
  /* ghost */
  int gval;                /* the ghost value */
  unsigned long gcount;    /* number of entries equal to gval */
  int pool;                /* 0, or the pool all entries belong to */
} IntStack;
static inline _Bool IntStack_wf(IntStack *s) { return s->gcount <= s->size && s->size <= MPI_MAXN; }
static inline _Bool IntStack_empty(IntStack *s) { return s->size == 0; }
static inline unsigned long IntStack_size(IntStack *s) { return s->size; }
static inline int *IntStack_top(IntStack *s)
{
  __CPROVER_assert(s->size > 0, "std::stack::top() on a non-empty stack");
  /* ASSUMED: definition of the ghost counter */
  __CPROVER_assume(s->gcount <= s->size);
  __CPROVER_assume(s->gcount != 0 || s->top != s->gval);
  __CPROVER_assume(s->gcount != s->size || s->top == s->gval);
  /* ASSUMED: container invariant, every entry was pushed as a member of the pool */
  if (s->pool) __CPROVER_assume(pool_idx_def(s->pool, s->top) >= 0);
  return &s->top;
}
static inline void IntStack_pop(IntStack *s)
{
  __CPROVER_assert(s->size > 0, "std::stack::pop() on a non-empty stack");
  __CPROVER_assume(s->gcount <= s->size);
  __CPROVER_assume(s->gcount != 0 || s->top != s->gval);
  __CPROVER_assume(s->gcount != s->size || s->top == s->gval);
  if (s->top == s->gval) s->gcount--;
  s->size--;
  s->top = nondet_int();   /* the entry below: abstract */
}
static inline void IntStack_push(IntStack *s, int x)
{
  if (s->pool) __CPROVER_assert(pool_idx_def(s->pool, x) >= 0, "stack entries are members of the pool");
  if (x == s->gval) s->gcount++;
  s->size++;
  s->top = x;
  REACH("stack push");
}

/* ------------------------------------------------------------------ std::vector<int> */
typedef struct IntVec {
  unsigned long size; int *data;
  int pool;                /* ghost: 0, or this vector IS pool `pool` (distinct entries) */
} IntVec;
static inline _Bool IntVec_wf(IntVec *v)
{ return v->size <= MPI_MAXN && __CPROVER_is_fresh(v->data, v->size * sizeof(int)) && (v->pool == 0 || VERIF_pool_size[v->pool] == v->size); }
static inline unsigned long IntVec_size(IntVec *v) { return v->size; }
static inline int *IntVec_at(IntVec *v, unsigned long i)
{
  __CPROVER_assert(i < v->size, "std::vector<int>::operator[] inside the vector");
  if (v->pool && VERIF_pool_sealed[v->pool]) {
    /* ASSUMED: type invariant of the pool (distinct entries), point-wise */
    __CPROVER_assume(v->data[i] == POOL_ID(v->pool, (long)i));
    __CPROVER_assume(POOL_IDX(v->pool, v->data[i]) == (long)i);
  }
  return &v->data[i];
}

/* ---- construction of containers inside a function under contract: the ghost selections of the new object (ghost value / key /
 * index, pool tag) are PROPHECY ghosts fixed by the harness; slot k%2 for the k-th stack (MPIMaster: JobStack, WorkerStack). */
int MPI_new_stack_gval[2], MPI_new_stack_pool[2]; unsigned long MPI_n_stack_ctor;
long MPI_new_intmap_gkey, MPI_new_ulmap_gkey;
unsigned long MPI_new_bvec_gidx;
int MPI_new_vec0_pool, MPI_new_vec1_pool; unsigned long MPI_new_vec0_cap;
static inline IntStack IntStack_ctor0(void)
{
  IntStack s; unsigned long k = MPI_n_stack_ctor % 2; MPI_n_stack_ctor++;
  s.size = 0; s.top = 0; s.gval = MPI_new_stack_gval[k]; s.gcount = 0; s.pool = MPI_new_stack_pool[k];
  return s;
}
/* std::vector<int>(): empty; storage for MPI_new_vec0_cap entries is set aside (MODEL: push_back never reallocates; ASSERTED there) */
static inline IntVec IntVec_ctor0(void)
{
  IntVec v; v.size = 0; v.pool = MPI_new_vec0_pool;
  __CPROVER_assume(MPI_new_vec0_cap <= MPI_MAXN);
  v.data = (int *)malloc(MPI_new_vec0_cap * sizeof(int));
  __CPROVER_assume(v.data != (int *)0);
  return v;
}
static inline void IntVec_push_back(IntVec *v, int x)
{
  __CPROVER_assert(v->size < MPI_new_vec0_cap, "MODEL: the capacity set aside for the vector suffices");
  v->data[v->size] = x; v->size++;
}
static inline IntVec IntVec_ctor1(unsigned long n)
{
  IntVec v; v.size = n; v.pool = MPI_new_vec1_pool;
  __CPROVER_assume(n <= MPI_MAXN);      /* larger requests end in std::length_error / std::bad_alloc: not modelled */
  v.data = (int *)calloc(n, sizeof(int));
  __CPROVER_assume(v.data != (int *)0);
  return v;
}

/* ------------------------------------------------------------------ std::vector<bool> */
typedef struct BoolVec { unsigned long size; _Bool *data; unsigned long gidx; } BoolVec;
typedef struct BoolIt { BoolVec *v; unsigned long pos; } BoolIt;
static inline _Bool BoolVec_wf(BoolVec *v) { return v->size <= MPI_MAXN && __CPROVER_is_fresh(v->data, v->size * sizeof(_Bool)); }
static inline _Bool *BoolVec_atp(BoolVec *v, unsigned long i)
{
  __CPROVER_assert(i < v->size, "std::vector<bool>::operator[] inside the vector");
  return &v->data[i];
}
/* std::vector<bool>::reference (std::_Bit_reference) is a proxy: printed `Bool_conv_bool(&BoolVec_at(v,i))`, `Bool_assign(&BoolVec_at(v,i), b)` */
#define BoolVec_at(v, i) (*BoolVec_atp((v), (i)))
#define Bool_conv_bool(p) (*(p))
#define Bool_assign(p, b) (*(p) = (b))
static inline BoolVec BoolVec_ctor0(void) { BoolVec v; v.size = 0; v.data = (_Bool *)0; v.gidx = MPI_new_bvec_gidx; return v; }
static inline BoolVec BoolVec_ctor2(unsigned long n, _Bool val)     /* vector<bool>(n, val) */
{
  BoolVec v; v.size = n; v.gidx = MPI_new_bvec_gidx;
  __CPROVER_assume(n <= MPI_MAXN);
  v.data = (_Bool *)calloc(n, sizeof(_Bool));
  __CPROVER_assume(v.data != (_Bool *)0);
  if (val) __CPROVER_array_set(v.data, 1);
  return v;
}
static inline BoolIt BoolVec_begin(BoolVec *v) { BoolIt it = { v, 0 }; return it; }
static inline BoolIt BoolVec_end(BoolVec *v) { BoolIt it = { v, v->size }; return it; }
unsigned long VERIF_acc_witness;
static inline int accumulate(BoolIt b, BoolIt e, int init, int plus_)
{
  __CPROVER_assert(b.v == e.v && b.pos == 0 && e.pos == b.v->size, "MODEL: std::accumulate over the whole vector<bool>");
  unsigned long r = nondet_ulong();
  /* ASSUMED: std::accumulate with std::plus<int> over bools = number of true entries */
  __CPROVER_assume(r <= b.v->size);
  if (b.v->gidx < b.v->size) __CPROVER_assume(r != b.v->size || b.v->data[b.v->gidx]);
  if (r < b.v->size) { unsigned long w = nondet_ulong(); __CPROVER_assume(w < b.v->size && !b.v->data[w]); VERIF_acc_witness = w; }
  return init + (int)r;
}

/* ------------------------------------------------------------------ boost::mpi::status, optional<status>, request */
typedef struct MpiStatus { int source_, tag_; } MpiStatus;
typedef struct OptStatus { _Bool has; MpiStatus st; } OptStatus;
#define OptStatus_conv_bool(o) ((o)->has)
static inline MpiStatus *OptStatus_get(OptStatus *o)
{
  __CPROVER_assert(o->has, "boost::get(optional) on an initialised optional");
  return &o->st;
}
static inline int MpiStatus_tag(MpiStatus *s) { return s->tag_; }
static inline int MpiStatus_source(MpiStatus *s) { return s->source_; }

typedef struct MpiReq {
  _Bool active;            /* request::active() */
  int source, tag;         /* ghost: what the receive was posted for */
  _Bool has_buf;           /* posted with a receive buffer (irecv with a value) */
  _Bool cancelled;         /* ghost: cancel() was called on it */
  _Bool eager;             /* ghost (has_buf): the message was written into the buffer at post time */
  int msg;                 /* ghost (has_buf): the payload this receive gets */
} MpiReq;
long MPI_n_outstanding;             /* ghost: receives posted - receives reported complete */
int MPI_next_tag, MPI_next_value;   /* ghost (prophecy): tag reported by the next ANY_TAG completion / payload of the next receive posted with a buffer;
                                       arbitrary unless a contract constrains them (assumed peer behaviour, stated there) */
_Bool MPI_next_eager;               /* ghost (prophecy): the next receive posted with a buffer gets its message at post time */
unsigned long MPI_n_posted;         /* ghost: number of irecv calls */
static inline MpiReq MpiReq_ctor0(void) { MpiReq r = { 0, 0, 0, 0, 0, 0, 0 }; return r; }
/* spec-file hooks: the receive buffer handed to irecv(source, tag, value) / delivery of the payload into it.
 * (The model does not keep the buffer POINTER in the request: CBMC cannot follow a pointer that is only known through
 * an equality in a pre-condition.  The spec's post hook asserts which object the buffer is, its deliver hook writes it.) */
void VERIF_mpi_post_hook(int source, int tag, int *buf);
void VERIF_mpi_deliver_hook(MpiReq *r, int value);      /* r == NULL: eager delivery during irecv (the request object does not exist yet) */
/* spec-file monitor: called before a request object is overwritten (operator=) */
void VERIF_mpi_store_hook(MpiReq *dst, MpiReq src);
static inline MpiReq *MpiReq_assign(MpiReq *dst, MpiReq src)
{
  VERIF_mpi_store_hook(dst, src);
  *dst = src;
  return dst;
}
static inline OptStatus MpiReq_test_(MpiReq *r)
{
  OptStatus o; o.has = 0; o.st.source_ = 0; o.st.tag_ = 0;
  if (!r->active) return o;                    /* request.hpp:105,124 */
  if (nondet_bool()) return o;                 /* not yet complete */
  __CPROVER_assume(MPI_n_outstanding >= 1);    /* ASSUMED: bookkeeping identity (see header) */
  MPI_n_outstanding--;
  r->active = 0;                               /* ASSUMED: MPI_Test resets a completed request */
  o.has = 1;
  o.st.source_ = r->source;                                         /* ASSUMED: MPI matching (specific source) */
  if (r->tag != MPI_ANY_TAG_) o.st.tag_ = r->tag;                   /* ASSUMED: MPI matching (specific tag) */
  else { o.st.tag_ = MPI_next_tag; MPI_next_tag = nondet_int(); }   /* any tag: the prophecy value, consumed */
  if (r->has_buf && !r->eager) VERIF_mpi_deliver_hook(r, r->msg);   /* LATE delivery: the payload lands in the buffer now */
  REACH("request completes");
  return o;
}
/* printed `OptStatus_conv_bool(&MpiReq_test(r))`: the temporary must be addressable */
#define MpiReq_test(r) (*(OptStatus[1]){ MpiReq_test_(r) })
static inline void MpiReq_cancel(MpiReq *r) { r->cancelled = 1; }   /* request.hpp:111 */

/* ------------------------------------------------------------------ std::vector<request> */
typedef struct ReqVec {
  unsigned long size; MpiReq *data;
  _Bool nobuf;             /* ghost: element invariant "every stored request was posted without a receive buffer and for a specific tag" */
} ReqVec;
static inline _Bool ReqVec_wf(ReqVec *v) { return v->size <= MPI_MAXN && __CPROVER_is_fresh(v->data, v->size * sizeof(MpiReq)); }
static inline ReqVec ReqVec_ctor0(void) { ReqVec v; v.size = 0; v.data = (MpiReq *)0; v.nobuf = 1; return v; }
/* vector<request>(n): n null requests ("Constructs a NULL request", request.hpp:39) = all-zero MpiReq: inactive, no buffer, tag 0 */
static inline ReqVec ReqVec_ctor1(unsigned long n)
{
  ReqVec v; v.size = n; v.nobuf = 1;
  __CPROVER_assume(n <= MPI_MAXN);
  v.data = (MpiReq *)calloc(n, sizeof(MpiReq));
  __CPROVER_assume(v.data != (MpiReq *)0);
  return v;
}
static inline MpiReq *ReqVec_at(ReqVec *v, unsigned long i)
{
  __CPROVER_assert(i < v->size, "std::vector<request>::operator[] inside the vector");
  /* ASSUMED: element invariant (the spec's store monitor asserts it for every request stored by the master) */
  if (v->nobuf) __CPROVER_assume(!v->data[i].has_buf && v->data[i].tag != MPI_ANY_TAG_);
  return &v->data[i];
}

/* ------------------------------------------------------------------ boost::mpi::communicator */
typedef struct Comm {
  int id;                           /* ghost: identity of the communicator; 0 = MPI_COMM_WORLD (what communicator() constructs) */
  int rank_, size_;
  /* ghost log of sends */
  unsigned long n_sends;            /* all sends */
  int g_dest, g_tag;                /* ghost selection (dest, tag) ... */
  unsigned long n_dest_tag;         /* ... number of sends to g_dest with tag g_tag */
  int last_dest_tag_value; _Bool last_dest_tag_has_value;
  int g_vtag, g_value;              /* ghost selection (tag, value) ... */
  unsigned long n_tag_value;        /* ... number of sends of value g_value with tag g_vtag */
  int tag_value_dest;               /* ... and the destination of the most recent one */
} Comm;
int MPI_world_rank, MPI_world_size;      /* ghost: rank / size of the world communicator */
/* boost::mpi::communicator::communicator(): "Build a new Boost.MPI communicator for MPI_COMM_WORLD" (communicator.hpp); empty ghost log */
static inline Comm Comm_ctor0(void)
{
  Comm c; c.id = 0; c.rank_ = MPI_world_rank; c.size_ = MPI_world_size; c.n_sends = 0; c.g_dest = 0; c.g_tag = 0; c.n_dest_tag = 0;
  c.last_dest_tag_value = 0; c.last_dest_tag_has_value = 0; c.g_vtag = 0; c.g_value = 0; c.n_tag_value = 0; c.tag_value_dest = 0;
  return c;
}
static inline int Comm_rank(Comm *c) { return c->rank_; }
static inline int Comm_size(Comm *c) { return c->size_; }
/* spec-file monitor: called for every send BEFORE it is logged */
void VERIF_mpi_send_hook(Comm *c, int dest, int tag, _Bool has_value, int value);
static inline void Comm_send_(Comm *c, int dest, int tag, _Bool has_value, int value)
{
  VERIF_mpi_send_hook(c, dest, tag, has_value, value);
  c->n_sends++;
  if (dest == c->g_dest && tag == c->g_tag) { c->n_dest_tag++; c->last_dest_tag_value = value; c->last_dest_tag_has_value = has_value; }
  if (has_value && tag == c->g_vtag && value == c->g_value) { c->n_tag_value++; c->tag_value_dest = dest; }
}
static inline void Comm_send2(Comm *c, int dest, int tag) { Comm_send_(c, dest, tag, 0, 0); }
static inline void Comm_send3(Comm *c, int dest, int tag, int value) { Comm_send_(c, dest, tag, 1, value); }
static inline MpiReq Comm_irecv_(Comm *c, int source, int tag, int *buf)
{
  MpiReq r; r.active = 1; r.source = source; r.tag = tag; r.has_buf = (buf != (int *)0); r.cancelled = 0; r.eager = 0; r.msg = 0;
  if (buf) {
    VERIF_mpi_post_hook(source, tag, buf);
    r.msg = MPI_next_value; MPI_next_value = nondet_int();
    r.eager = MPI_next_eager; MPI_next_eager = nondet_bool();
    if (r.eager) { VERIF_mpi_deliver_hook((MpiReq *)0, r.msg); REACH("eager delivery"); }   /* EAGER delivery: the message was already queued */
  }
  MPI_n_outstanding++; MPI_n_posted++;
  return r;
}
static inline MpiReq Comm_irecv2(Comm *c, int source, int tag) { return Comm_irecv_(c, source, tag, (int *)0); }
static inline MpiReq Comm_irecv3(Comm *c, int source, int tag, int *value) { return Comm_irecv_(c, source, tag, value); }

/* ------------------------------------------------------------------ boost::mpi::broadcast of a std::vector<int> */
#define MPI_BCAST_MAX 2
unsigned long MPI_bcast_k;                       /* ghost: number of broadcasts so far */
unsigned long MPI_bcast_len[MPI_BCAST_MAX];      /* ghost: length of the k-th broadcast vector (root: recorded; others: prophecy) */
int MPI_bcast_gval[MPI_BCAST_MAX];               /* ghost: its entry at the ghost index */
int MPI_bcast_pool[MPI_BCAST_MAX];               /* ghost (non-root): pool tag of the delivered vector (0 = none) */
unsigned long MPI_bcast_gidx;                    /* ghost index */
static inline void broadcast(Comm *c, IntVec *v, int root)
{
  __CPROVER_assert(MPI_bcast_k < MPI_BCAST_MAX, "MODEL: at most MPI_BCAST_MAX broadcasts per function");
  unsigned long k = MPI_bcast_k++;
  if (c->rank_ == root) {
    MPI_bcast_len[k] = v->size;
    if (MPI_bcast_gidx < v->size) MPI_bcast_gval[k] = v->data[MPI_bcast_gidx];
    REACH("broadcast (root)");
  } else {
    /* the vector object is replaced by the root's (the old storage is released) */
    unsigned long n = MPI_bcast_len[k];
    __CPROVER_assume(n <= MPI_MAXN);
    v->size = n; v->pool = MPI_bcast_pool[k];
    v->data = (int *)malloc(n * sizeof(int));
    __CPROVER_assume(v->data != (int *)0);
    if (MPI_bcast_gidx < n) __CPROVER_assume(v->data[MPI_bcast_gidx] == MPI_bcast_gval[k]);
    REACH("broadcast (non-root)");
  }
}
static inline void Comm_barrier(Comm *c) { }

/* ------------------------------------------------------------------ std::vector<WrapType> parts (only its size is used), scoped_ptr<MPIMaster> */
typedef struct SkelPartVec { unsigned long size; } SkelPartVec;
static inline unsigned long SkelPartVec_size(SkelPartVec *v) { return v->size; }
struct MPIMaster;
typedef struct MasterPtr { struct MPIMaster *p; } MasterPtr;
static inline struct MPIMaster *MasterPtr_arrow(MasterPtr *d)
{
  __CPROVER_assert(d->p != (struct MPIMaster *)0, "boost::scoped_ptr::operator-> on a non-null pointer");
  return d->p;
}

/* ------------------------------------------------------------------ std::map<K,int>, K = int | unsigned long */
typedef struct GMap {
  unsigned long size;
  long gkey; _Bool gpresent; int gval;     /* the ghost key (as long: int and size_t keys embed) */
  int other;                               /* scratch cell handed out for every other key */
  int inv_pool;                            /* ghost: 0, or "this map is the inverse of pool inv_pool" */
  unsigned long gpos;                      /* ghost: position of the ghost key in iteration order (if present) */
} GMap;
typedef GMap IntMap;
typedef GMap UlMap;
static inline unsigned long GMap_size(GMap *m) { return m->size; }
/* operator[]: the bookkeeping is a function returning which cell is meant; the cell itself is selected by the macro, so that
 * `map1[a] = map2[b]` copies between NAMED fields (a pointer returned from a function on both sides of an assignment made the
 * solver run out of memory on a one-line change of order_worker: seeded change C16-1). */
static inline _Bool GMap_touch(GMap *m, long k)
{
  if (k == m->gkey) {
    if (!m->gpresent) { m->gpresent = 1; m->gval = 0; m->size++; }
    return 1;
  }
  _Bool present = nondet_bool();
  int v = nondet_int();
  if (m->inv_pool && k == (long)(int)k) {
    long x = pool_idx_def(m->inv_pool, (int)k);
    /* ASSUMED: type invariant established by MPIMaster::fill_stack_ (member key => present with its position) */
    if (x >= 0) __CPROVER_assume(present && (long)v == x);
  }
  if (!present) { m->size++; v = 0; }
  m->other = v;
  return 0;
}
#define GMap_at(m, k) (GMap_touch((m), (k)) ? &(m)->gval : &(m)->other)
#define IntMap_at(m, k) GMap_at((m), (long)(k))
#define UlMap_at(m, k) GMap_at((m), (long)(k))
static inline GMap GMap_ctor0_(long gkey) { GMap m; m.size = 0; m.gkey = gkey; m.gpresent = 0; m.gval = 0; m.other = 0; m.inv_pool = 0; m.gpos = 0; return m; }
#define IntMap_ctor0() GMap_ctor0_(MPI_new_intmap_gkey)
#define UlMap_ctor0() GMap_ctor0_(MPI_new_ulmap_gkey)
/* std::swap of two objects of the same type (MPIMaster::swap) */
#define VERIF_SWAP_FN(T) static inline void swap_##T(T *a, T *b) { T t = *a; *a = *b; *b = t; }
typedef unsigned long verif_ulong;
VERIF_SWAP_FN(verif_ulong) VERIF_SWAP_FN(IntStack) VERIF_SWAP_FN(GMap) VERIF_SWAP_FN(IntVec) VERIF_SWAP_FN(ReqVec) VERIF_SWAP_FN(BoolVec)
#define swap(a, b) _Generic((a), unsigned long *: swap_verif_ulong, IntStack *: swap_IntStack, GMap *: swap_GMap, IntVec *: swap_IntVec, ReqVec *: swap_ReqVec, BoolVec *: swap_BoolVec)((a), (b))
#define IntMap_size GMap_size
#define UlMap_size GMap_size
/* std::map::empty() */
static inline _Bool GMap_empty(GMap *m) { return m->size == 0; }
#define IntMap_empty GMap_empty
#define UlMap_empty GMap_empty
/* copy assignment; the printer hands the source over by address or by value depending on what it knows about the parameter */
static inline GMap *GMap_assign_p(GMap *dst, GMap *src) { *dst = *src; return dst; }
static inline GMap *GMap_assign_v(GMap *dst, GMap src) { *dst = src; return dst; }
#define IntMap_assign(dst, src) _Generic((src), GMap *: GMap_assign_p, default: GMap_assign_v)((dst), (src))
/* iteration */
typedef struct IntPair { int first, second; } IntPair;
typedef struct MapIt { GMap *m; unsigned long pos; IntPair cur; } MapIt;
static inline MapIt IntMap_begin_(GMap *m) { MapIt it; it.m = m; it.pos = 0; it.cur.first = 0; it.cur.second = 0; return it; }
#define IntMap_begin(m) (*(MapIt[1]){ IntMap_begin_(m) })
#define MapIt_ctor1(p) (*(p))
static inline IntPair *MapIt_arrow(MapIt *it)
{
  __CPROVER_assert(it->pos < it->m->size, "std::map iterator dereferenced before end()");
  int k = nondet_int(), v = nondet_int();
  if (it->m->gpresent) {
    /* ASSUMED: std::map iteration order, point-wise against the ghost key */
    __CPROVER_assume(it->m->gpos < it->m->size && it->m->gkey == (long)(int)it->m->gkey);
    if (it->pos == it->m->gpos) { k = (int)it->m->gkey; v = it->m->gval; }
    else if (it->pos < it->m->gpos) __CPROVER_assume((long)k < it->m->gkey);
    else __CPROVER_assume((long)k > it->m->gkey);
  } else __CPROVER_assume((long)k != it->m->gkey);
  it->cur.first = k; it->cur.second = v;
  return &it->cur;
}
static inline MapIt *MapIt_inc(MapIt *it)
{
  __CPROVER_assert(it->pos < it->m->size, "std::map iterator incremented before end()");
  it->pos++;
  return it;
}

/* twins for the other spelling of an increment (`++it` for `it++` and vice versa): same effect.  X_inc yields the iterator after the step
 * (exact); X_postinc made from X_inc is void, so a use of its value does not compile (UNDECIDED) instead of being modelled wrongly */
#define MapIt_postinc(it_) ((void)MapIt_inc(it_))
#endif
