/* strlabel.h -- std::string site labels as opaque integer ids (DESIGN 3.2).
 *
 * ASSUMED contract of std::string / boost::hash<std::string>:
 *   - equality of ids <=> equality of strings (operator== / operator!= are == / != on ids);
 *   - std::string::operator< is a strict total order on string values: modelled as the integer
 *     order of the ids (ids are opaque, so this fixes no particular order);
 *   - boost::hash<std::string> is a FUNCTION of the string value (uninterpreted); injectivity is
 *     NOT assumed (hypothesis H_label of DESIGN C18 is stated where it is used);
 *   - the empty string "" is the id 0.
 */
#ifndef VERIF_STRLABEL_H
#define VERIF_STRLABEL_H
#include "common.h"
typedef long label_t;
typedef struct strhash_t { char unused; } strhash_t;
unsigned long __CPROVER_uninterpreted_strhash(label_t);
#define STRHASH(l) __CPROVER_uninterpreted_strhash(l)
#define strhash_t_ctor0() ((strhash_t){ 0 })
#define strhash_t_call(h, l) STRHASH(l)
#define op_eq_label_t_label_t(a, b) ((a) == (b))
#define op_ne_label_t_label_t(a, b) ((a) != (b))
#define op_lt_label_t_label_t(a, b) ((a) < (b))
#endif
