/* bitset.h -- boost::dynamic_bitset<> (pomerol's FockState) as ONE 64-bit block plus its size
 * (Boost 1.83 dynamic_bitset.hpp).  pomerol itself is limited to <= 30 modes (1<<IndexSize in int),
 * so size <= 64 is no restriction of the library's domain; it is a type invariant of the model.
 *
 * ASSERTED (obligations on pomerol; Boost checks them only with assertions enabled, NDEBUG drops them):
 *   operator[](pos), test(pos), set/reset/flip(pos): pos < size()   (Boost: `assert(pos < m_num_bits)` in test(),
 *   line 1141; operator[] indexes m_bits[block_index(pos)] unchecked, line 308 -- beyond size() this reads/writes
 *   outside the block vector or an unused bit).
 * ASSUMED (documented behaviour): count() = number of set bits; to_ulong() = the value (size <= 64);
 *   operator== : same size and same bits; operator< : for equal sizes the numerical order of the value,
 *   an empty set is smaller than every non-empty one (Boost 1.83 lines 1535-1575); bits at positions
 *   >= size() are zero (class invariant m_check_invariants).
 * The proxy returned by the non-const operator[] is BitRef {bitset, position}; assignment through it
 * is BitRef_assign, reading it BitRef_conv_bool.  Both are macros over compound literals so that the
 * printed `BitRef_assign(&Bitset_at(&bra, ind), v)` is valid C and a write to the local bitset.
 */
#ifndef VERIF_BITSET_H
#define VERIF_BITSET_H
#include "common.h"
typedef struct Bitset { unsigned long w; unsigned long size; } Bitset;
typedef struct BitRef { Bitset *b; unsigned long pos; } BitRef;

/* type invariant */
static inline _Bool Bitset_wf(Bitset b) { return b.size <= 64 && (b.size == 64 || (b.w >> b.size) == 0); }

static inline unsigned long Bitset_size(const Bitset *b) { return b->size; }
static inline unsigned long Bitset_count(const Bitset *b) { return (unsigned long)__builtin_popcountl(b->w); }
static inline unsigned long Bitset_to_ulong(const Bitset *b) { return b->w; }
static inline _Bool Bitset_test(const Bitset *b, unsigned long pos)
{
  __CPROVER_assert(pos < b->size, "dynamic_bitset::test(pos): pos < size()");
  return (b->w >> pos) & 1UL;
}
static inline unsigned long Bitset_checked_pos(const Bitset *b, unsigned long pos)
{
  __CPROVER_assert(pos < b->size, "dynamic_bitset::operator[](pos): pos < size()");
  return pos;
}
/* non-const operator[]: the proxy */
#define Bitset_at(b, pos_) ((BitRef){ (b), Bitset_checked_pos((b), (pos_)) })
#define BitRef_conv_bool(r) ((_Bool)(((r)->b->w >> (r)->pos) & 1UL))
#define BitRef_assign(r, v) ({ BitRef *_r = (r); \
  if (v) _r->b->w |= (1UL << _r->pos); else _r->b->w &= ~(1UL << _r->pos); _r; })
/* const operator[] (returns bool) -- the extractor prints both overloads as Bitset_at; spec files that
 * extract code using the const overload rename it:  //@rename Bitset_at/1 => Bitset_cat  */
static inline _Bool Bitset_cat(const Bitset *b, unsigned long pos) { return (b->w >> Bitset_checked_pos(b, pos)) & 1UL; }

static inline _Bool op_eq_Bitset_Bitset(Bitset a, Bitset b) { return a.size == b.size && a.w == b.w; }
static inline _Bool op_ne_Bitset_Bitset(Bitset a, Bitset b) { return !op_eq_Bitset_Bitset(a, b); }
static inline _Bool op_lt_Bitset_Bitset(Bitset a, Bitset b)
{
  if (b.size == 0) return 0;
  if (a.size == 0) return 1;
  if (a.size == b.size) return a.w < b.w;
  /* different non-zero sizes: compare from the most significant bit downwards over the common length */
  unsigned long n = a.size < b.size ? a.size : b.size;
  unsigned long ta = a.w >> (a.size - n), tb = b.w >> (b.size - n);
  if (ta != tb) return ta < tb;
  return a.size < b.size;
}
/* FockState(size, value) */
static inline Bitset Bitset_ctor2_f(unsigned long size, unsigned long value)
{
  Bitset r; r.size = size;
  __CPROVER_assert(size <= 64, "bitset model: at most 64 bits");
  r.w = size >= 64 ? value : (value & ((1UL << size) - 1UL));
  return r;
}
#define Bitset_ctor2(size_, value_) (*(Bitset[1]){ Bitset_ctor2_f((size_), (value_)) })      /* an lvalue: a temporary may be passed by address */
static inline Bitset Bitset_ctor0(void) { Bitset r = {0UL, 0UL}; return r; }
/* bitwise operators of two bitsets (boost: "Requires: this->size() == rhs.size()", asserted).  The printer hands class-type operands over
 * by address and takes the address of the result: the macros yield lvalues. */
static inline Bitset bitset_binop_f(const Bitset *a, const Bitset *b, int op)
{
  __CPROVER_assert(a->size == b->size, "boost::dynamic_bitset operator& | ^: both operands have the same size");
  Bitset r; r.size = a->size; r.w = op == 0 ? (a->w & b->w) : (op == 1 ? (a->w | b->w) : (a->w ^ b->w));
  return r;
}
#define op_and_Bitset_Bitset(a, b) (*(Bitset[1]){ bitset_binop_f((a), (b), 0) })
#define op_or_Bitset_Bitset(a, b)  (*(Bitset[1]){ bitset_binop_f((a), (b), 1) })
#define op_xor_Bitset_Bitset(a, b) (*(Bitset[1]){ bitset_binop_f((a), (b), 2) })
#endif
