/* denseprod.h -- the Eigen expressions of FieldOperatorPart::compute as OPAQUE dependencies (owner: pkgC):
 *     elementsRowMajor = (LeftMat * RightMat).sparseView(tol);  elementsRowMajor.prune(tol);  elementsColMajor = elementsRowMajor;
 * and of FieldOperatorContainer::computeAll:
 *     c.elementsRowMajor = cdag.getColMajorValue().adjoint();   c.elementsColMajor = cdag.getRowMajorValue().adjoint();
 *
 * ASSERTED: the inner dimensions of the dense product agree (Eigen asserts it only without NDEBUG).
 * ASSUMED (documented behaviour of Eigen; the numerical content of the results is NOT modelled -- the coefficients of the
 *   sparse results are arbitrary):
 *   P1  (A*B) is A.rows() x B.cols();
 *   P2  sparseView / prune / operator= / adjoint produce a matrix in compressed form with sorted inner indices (this is the
 *       type invariant SparseM_wf that the consumers in gfpart.c etc. require) and with the dimensions of the source
 *       (adjoint: swapped); a RowMajor matrix has outerSize = rows, a ColMajor matrix outerSize = cols;
 *   P3  the arrays of the result are allocated tightly (nnz entries).
 * A hook DENSEPROD_MONITOR(A, B), if defined before inclusion, is called with the two operands of the product: the spec
 * file's monitor checks there what the operands must be (C10).
 */
#ifndef VERIF_DENSEPROD_H
#define VERIF_DENSEPROD_H
#include "common.h"
#include "dense.h"
#include "sparse.h"
typedef struct DenseProd { long rows, cols; } DenseProd;
typedef struct SparseViewT { long rows, cols; } SparseViewT;
#ifndef DENSEPROD_MONITOR
#define DENSEPROD_MONITOR(A, B) ((void)0)
#endif
static inline DenseProd dense_prod(RealMatrix *A, RealMatrix *B)
{
  DenseProd p;
  __CPROVER_assert(A->cols == B->rows, "Eigen product: inner dimensions agree");
  DENSEPROD_MONITOR(A, B);
  p.rows = A->rows; p.cols = B->cols;                 /* ASSUMED P1 */
  return p;
}
/* the printed C takes the address of these temporaries: compound literals are lvalues */
#define RealMatrix_mul(A, B) (*(DenseProd[1]){ dense_prod((A), (B)) })
/* Eigen signatures (Eigen/src/SparseCore/SparseView.h, SparseMatrix.h, Core/MathFunctions.h):
 *     MatrixBase::sparseView(const Scalar& reference = Scalar(0), const RealScalar& epsilon = NumTraits<Scalar>::dummy_precision())
 *     SparseMatrix::prune(const Scalar& reference, const RealScalar& epsilon = NumTraits<RealScalar>::dummy_precision())
 * an entry x is DROPPED iff internal::isMuchSmallerThan(x, reference, epsilon), i.e. |x| <= |reference| * epsilon, and kept otherwise:
 * the FIRST argument is a reference magnitude, not a tolerance; the absolute cut-off is |reference| * epsilon with
 * dummy_precision<double>() = 1e-12.  (The one-argument calls sparseView(1e-8) / prune(1e-8) therefore cut at 1e-20, the
 * two-argument calls (1, 1e-8) at 1e-8.)  The coefficients of the results are not modelled (header comment), so the
 * arguments do not influence the model: both forms yield a compressed matrix of the same dimensions with arbitrary content.
 * The two-argument forms are printed under the names DenseProd_sparseView2 / SparseRM_prune2 (spec: `//@rename DenseProd_sparseView/2 => DenseProd_sparseView2`,
 * `//@rename SparseRM_prune/2 => SparseRM_prune2`). */
#define DENSEPROD_DUMMY_PRECISION 1e-12
static inline SparseViewT dense_sparse_view(DenseProd *p, double reference, double epsilon) { SparseViewT v; v.rows = p->rows; v.cols = p->cols; return v; }
#define DenseProd_sparseView(p, ref)       (*(SparseViewT[1]){ dense_sparse_view((p), (ref), DENSEPROD_DUMMY_PRECISION) })
#define DenseProd_sparseView2(p, ref, eps) (*(SparseViewT[1]){ dense_sparse_view((p), (ref), (eps)) })
static inline void sparse_fresh_arrays(SparseM *m, long outer, long inner)
{
  m->outerSize = outer; m->innerSize = inner;
  m->nnz = nondet_long();
  __CPROVER_assume(0 <= m->nnz && m->nnz <= SP_MAX);
  m->outer = malloc((size_t)(outer + 1) * sizeof(int));
  m->inner = malloc((size_t)m->nnz * sizeof(int));
  m->values = malloc((size_t)m->nnz * 8UL);           /* ASSUMED P3 */
  __CPROVER_assume(m->outer != (int *)0 && m->inner != (int *)0 && m->values != (double *)0);   /* ASSUMED: allocation succeeds */
  m->gpos = -1; m->gouter = 0; m->last_value_pos = -1; m->last_value_outer = -1;
}
/* RowMajor = sparse view of a dense expression */
static inline void SparseRM_assign(SparseRM *dst, SparseViewT *v)
{
  __CPROVER_assert(0 <= v->rows && v->rows <= SP_MAX && 0 <= v->cols && v->cols <= SP_MAX, "sparse model: dimensions within SP_MAX");
  sparse_fresh_arrays(dst, v->rows, v->cols);         /* ASSUMED P2: RowMajor: outer = rows */
}
static inline void sparse_rm_prune(SparseRM *m, double reference, double epsilon)
{
  long o = m->outerSize, i = m->innerSize;
  sparse_fresh_arrays(m, o, i);                       /* ASSUMED P2: same dimensions, still compressed */
}
#define SparseRM_prune(m, ref)       sparse_rm_prune((m), (ref), DENSEPROD_DUMMY_PRECISION)
#define SparseRM_prune2(m, ref, eps) sparse_rm_prune((m), (ref), (eps))
/* ColMajor = RowMajor (same matrix, other storage order) */
static inline void SparseCM_assign(SparseCM *dst, SparseRM *src)
{
  sparse_fresh_arrays(dst, src->innerSize, src->outerSize);   /* ASSUMED P2: ColMajor: outer = cols = inner size of the RowMajor source */
}
#endif
