/* gvec.h -- ghost-element models of std::vector<long>, std::vector<Eigen complex matrix>,
 * Eigen dense complex matrix / vector of *unbounded* size (sizes up to 2^62: the element storage is
 * not an array).
 *
 * Model (DESIGN.md 3.2/3.3, "ghost index instead of forall"): a container keeps
 *   - its size(s),
 *   - the element at ONE ghost index `gidx` chosen by the harness before the call (arbitrary, hence
 *     every statement proved about it holds for all indices),
 *   - for vectors whose elements carry structure: a one-element cache `cur`/`curval` holding the
 *     element at the most recently accessed non-ghost index.  Switching to another non-ghost index
 *     havocs the cache (over-approximation: nothing is known about an element that is not the ghost
 *     element and not the one just accessed).
 *   - scalar cells that are not the ghost cell: a read returns a nondeterministic value, a write is lost.
 *
 * ASSERTED (obligations on pomerol): every element access is inside the container
 *   (std::vector::operator[] and Eigen coefficient access are unchecked under NDEBUG: out of range = UB);
 *   resize arguments are non-negative / below max_size.
 * ASSUMED: nothing.  (Allocation failure -- std::bad_alloc for huge sizes -- is not modelled.)
 */
#ifndef VERIF_GVEC_H
#define VERIF_GVEC_H
#include "common.h"
#include "cplx.h"
#include <limits.h>

static inline cplx nondet_cplx(void) { cplx c = {nondet_double(), nondet_double()}; return c; }

/* std::abs(long) / labs: undefined for LONG_MIN */
static inline long l_abs(long x)
{
  __CPROVER_assert(x != LONG_MIN, "std::abs(long): the argument is not LONG_MIN");
  return x < 0 ? -x : x;
}

#define GVEC_MAXSIZE (LONG_MAX / 64)   /* std::vector<T>::max_size() for sizeof(T) <= 64; resize beyond it throws length_error */

/* ---- std::vector<long> */
typedef struct VecLong {
  long size;
  long gidx, gval;      /* ghost index (fixed by the harness) and the element stored there */
  long cur, curval;     /* most recently accessed non-ghost index (-1: none) and its element */
} VecLong;
static inline long *VecLong_at(VecLong *v, unsigned long i)
{
  __CPROVER_assert(i < (unsigned long)v->size, "std::vector<long>::operator[]: index inside the vector");
  if ((long)i == v->gidx) return &v->gval;
  if ((long)i != v->cur) { v->cur = (long)i; v->curval = nondet_long(); }
  return &v->curval;
}
/* default constructor: empty vector (the ghost index is whatever the harness fixes later: left unconstrained) */
static inline VecLong VecLong_ctor0(void) { VecLong v; v.size = 0; v.cur = -1; return v; }
static inline unsigned long VecLong_size(VecLong *v) { return (unsigned long)v->size; }
static inline void VecLong_resize(VecLong *v, unsigned long n)
{
  __CPROVER_assert(n <= (unsigned long)GVEC_MAXSIZE, "std::vector<long>::resize: new size does not exceed max_size()");
  /* elements [0,min(old,n)) are kept, new elements are value-initialised */
  if (v->gidx >= v->size && v->gidx >= 0 && (unsigned long)v->gidx < n) v->gval = 0;
  if (v->cur >= v->size || (v->cur >= 0 && (unsigned long)v->cur >= n)) v->cur = -1;
  v->size = (long)n;
}

/* ---- Eigen::Matrix<std::complex<double>, Dynamic, Dynamic, RowMajor> */
typedef struct CMat {
  long rows, cols;
  long gi, gj;          /* ghost cell (fixed by the harness; meaningful iff inside the matrix) */
  cplx gcell;           /* coefficient at (gi,gj) */
  cplx other;           /* landing place for accesses to every other coefficient */
} CMat;
static inline long CMat_rows(CMat *m) { return m->rows; }
static inline long CMat_cols(CMat *m) { return m->cols; }
static inline cplx *CMat_call(CMat *m, long i, long j)
{
  __CPROVER_assert(0 <= i && i < m->rows && 0 <= j && j < m->cols, "Eigen matrix coefficient access (i,j) inside the matrix");
  if (i == m->gi && j == m->gj) return &m->gcell;
  m->other = nondet_cplx();
  return &m->other;
}
static inline void CMat_resize(CMat *m, long r, long c)
{
  __CPROVER_assert(r >= 0 && c >= 0, "Eigen resize(rows,cols): sizes are non-negative");
  /* PlainObjectBase::resize: the coefficients are uninitialised unless the total size is unchanged */
  if (r != m->rows || c != m->cols) m->gcell = nondet_cplx();
  m->rows = r; m->cols = c;
}

/* ---- std::vector<ComplexMatrixType> */
typedef struct VecCMat {
  long size;
  long gidx; CMat g;         /* ghost index and the matrix stored there */
  long cur;  CMat curm;      /* most recently accessed non-ghost index (-1: none) and its matrix */
} VecCMat;
static inline CMat *VecCMat_at(VecCMat *v, unsigned long i)
{
  __CPROVER_assert(i < (unsigned long)v->size, "std::vector<ComplexMatrixType>::operator[]: index inside the vector");
  if ((long)i == v->gidx) return &v->g;
  if ((long)i != v->cur) {
    v->cur = (long)i;
    v->curm.rows = nondet_long(); v->curm.cols = nondet_long();
    v->curm.gi = -1; v->curm.gj = -1;
    v->curm.gcell = nondet_cplx(); v->curm.other = nondet_cplx();
  }
  return &v->curm;
}
static inline VecCMat VecCMat_ctor0(void) { VecCMat v; v.size = 0; v.cur = -1; return v; }
static inline unsigned long VecCMat_size(VecCMat *v) { return (unsigned long)v->size; }
static inline void VecCMat_resize(VecCMat *v, unsigned long n)
{
  __CPROVER_assert(n <= (unsigned long)GVEC_MAXSIZE, "std::vector<ComplexMatrixType>::resize: new size does not exceed max_size()");
  /* kept elements are unchanged, new elements are default-constructed (0 x 0 matrices) */
  if (v->gidx >= v->size && v->gidx >= 0 && (unsigned long)v->gidx < n) { v->g.rows = 0; v->g.cols = 0; }
  if (v->cur >= v->size || (v->cur >= 0 && (unsigned long)v->cur >= n)) v->cur = -1;
  v->size = (long)n;
}

/* ---- Eigen::Matrix<std::complex<double>, Dynamic, 1> */
typedef struct CVec {
  long size;
  long gidx;            /* ghost index */
  cplx gcell;           /* coefficient at gidx */
  cplx other;
} CVec;
static inline long CVec_size(CVec *v) { return v->size; }
static inline cplx *CVec_call(CVec *v, long i)
{
  __CPROVER_assert(0 <= i && i < v->size, "Eigen vector coefficient access inside the vector");
  if (i == v->gidx) return &v->gcell;
  v->other = nondet_cplx();
  return &v->other;
}
#define CVec_at CVec_call
static inline void CVec_resize(CVec *v, long n)
{
  __CPROVER_assert(n >= 0, "Eigen resize(size): size is non-negative");
  if (n != v->size) v->gcell = nondet_cplx();
  v->size = n;
}
#endif
