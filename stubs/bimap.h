/* bimap.h -- boost::bimap< set_of<BlockNumber>, set_of<BlockNumber> >  (pomerol: FieldOperator::BlocksBimap)
 * and its two map views `left` / `right` with their const iterators.             owner: pkgB1
 *
 * ======================================= INTERFACE (stable) =======================================
 * C types (use `//@include types_bimap.inc` in the spec file: it maps the C++ types onto these):
 *   BlockNumber              struct { int number; }   (mirror of include/pomerol/StatesClassification.h:120;
 *                                                      the operators ==, <, operator int are EXTRACTED, see below)
 *   BiPair                   struct { BlockNumber first, second; }   what `it->first` / `it->second` read
 *   BiLeft, BiRight          one view = array `e[0..n)` of BiPair, STRICTLY INCREASING in e[k].first
 *                              left  view: first = left key,  second = right key
 *                              right view: first = right key, second = left key   (boost mirrors the pair)
 *   BlocksBimap              struct { BiLeft left; BiRight right; }      `bm.left` / `bm.right` are plain members
 *   BiLeftIt, BiRightIt      iterator = { view, pos }, pos in [0,n], end() = n;  small struct, passed by value
 *
 * operations (exactly what ast2c prints for the C++ on the right; all are macros, so that `(&it)->pos++`
 * is a write to a local variable for CBMC):
 *   BiLeft_begin(v) / BiLeft_end(v)            v.begin() / v.end()          (v = &bm->left), value of type BiLeftIt
 *   BiLeft_size(v) / BiLeft_empty(v)           v.size() / v.empty()
 *   BiLeft_find(v, key)                        v.find(key)                  key: BlockNumber by value, result BiLeftIt
 *   op_ne_BiLeftIt_BiLeftIt(pa, pb)            a != b     (both operands arrive BY ADDRESS: `&Aiter, &BiLeft_end(..)`;
 *   op_eq_BiLeftIt_BiLeftIt(pa, pb)            a == b      begin/end/find are compound literals, so `&` of them is legal C)
 *   BiLeftIt_arrow(pit)                        it->       returns BiPair* ;  `(BiLeftIt_arrow(&it))->first`
 *   BiLeftIt_deref(pit)                        *it        returns BiPair* ;  printed as `(*BiLeftIt_deref(&it)).first`
 *   op_inc_BiLeftIt_int(pit, 0)                it++       (iterator_facade's postfix ++ is a free function template)
 *   BiLeftIt_inc(pit)                          ++it       returns pit
 *   ... and the same names with Right instead of Left.
 * type invariants for `requires` clauses:
 *   BiView_wf(v)             one view: 0 <= n <= BI_MAX, e fresh with n entries, ghost position valid and its two numbers in range
 *   BlocksBimap_wf(bm)       both views + "same set of relations": equal sizes and the ghost relation of the left view is
 *                            the ghost relation of the right view (mirrored)
 * ghost fields of a view (set them in the harness / constrain them in `requires`):
 *   gpos      ONE arbitrary position in [0,n), or -1: order facts are instantiated point-wise against it
 *   kmax      exclusive upper bound of every block number stored in the view (number of blocks of the model)
 *   last_pos  position of the most recent `->` / `*` (for monitors: "which relation is the iterator on")
 * ===================================================================================================
 *
 * ASSERTED (obligations on pomerol):
 *   an iterator is dereferenced / incremented only before end();  iterators of different views are not compared.
 * ASSUMED (trusted; each is instantiated point-wise at a dereference, against the ONE ghost position gpos, which is
 *   arbitrary -- hence equivalent to the quantified statement):
 *   (B1) boost set_of view: iteration is in strictly increasing key order (std::less<BlockNumber> = BlockNumber::operator<,
 *        i.e. order of `.number`):            k < gpos => e[k].first < e[gpos].first,   k > gpos => e[k].first > e[gpos].first
 *   (B2) boost set_of on the other side too: the non-key members are pairwise different:  k != gpos => e[k].second != e[gpos].second
 *   (B3) type invariant of the OWNER of the bimap (FieldOperator::LeftRightBlocks is filled only with numbers of existing
 *        blocks, see {Creation,Annihilation,Quadratic}Operator::prepare):  0 <= number < kmax  for both members of every relation.
 *        With kmax = 2^31 this says only "not negative" (ERROR_BLOCK_NUMBER = -1 is never stored).
 *   (B4) find() is exact w.r.t. the comparator: it returns a position holding the key, or end() if there is none
 *        (instantiated at gpos: if e[gpos].first is the key the result is gpos; if the result is end() then e[gpos].first is not the key).
 */
#ifndef VERIF_BIMAP_H
#define VERIF_BIMAP_H
#include "common.h"
#define BI_MAX 1000000L
#define BI_KMAX_LIMIT 2147483648L

#ifndef VERIF_BLOCKNUMBER_DEFINED
#define VERIF_BLOCKNUMBER_DEFINED
typedef struct BlockNumber { int number; } BlockNumber;
#endif
typedef struct BiPair { BlockNumber first, second; } BiPair;
typedef struct BiView {
  long n;          /* number of relations */
  BiPair *e;       /* n entries, strictly increasing in e[k].first.number */
  /* ghost */
  long kmax;       /* every stored number is in [0,kmax) */
  long gpos;       /* arbitrary position in [0,n) (or -1), fixed by the harness */
  long last_pos;   /* position of the most recent dereference */
} BiView;
typedef BiView BiLeft;
typedef BiView BiRight;
typedef struct BlocksBimap { BiLeft left; BiRight right; } BlocksBimap;
typedef struct BiIt { BiView *v; long pos; } BiIt;
typedef BiIt BiLeftIt;
typedef BiIt BiRightIt;

/* type invariants usable in requires clauses */
static inline _Bool BiView_wf(BiView *v)
{
  return v->n >= 0 && v->n <= BI_MAX && 0 < v->kmax && v->kmax <= BI_KMAX_LIMIT &&
         __CPROVER_is_fresh(v->e, v->n * sizeof(BiPair)) &&
         (v->gpos == -1 || (0 <= v->gpos && v->gpos < v->n &&
                            0 <= v->e[v->gpos].first.number && v->e[v->gpos].first.number < v->kmax &&
                            0 <= v->e[v->gpos].second.number && v->e[v->gpos].second.number < v->kmax));
}
static inline _Bool BlocksBimap_wf(BlocksBimap *b)
{
  return BiView_wf(&b->left) && BiView_wf(&b->right) && b->left.n == b->right.n && b->left.kmax == b->right.kmax &&
         ((b->left.gpos >= 0) == (b->right.gpos >= 0)) &&
         (b->left.gpos < 0 || (b->left.e[b->left.gpos].first.number == b->right.e[b->right.gpos].second.number &&
                               b->left.e[b->left.gpos].second.number == b->right.e[b->right.gpos].first.number));
}

#define BiView_begin(v_) ((BiIt){ (v_), 0 })
#define BiView_end(v_) ((BiIt){ (v_), (v_)->n })
#define BiView_size(v_) ((unsigned long)(v_)->n)
#define BiView_empty(v_) ((v_)->n == 0)
#define BiIt_ne(a, b) ({ \
  __CPROVER_assert((a)->v == (b)->v, "bimap: only iterators of the same view are compared"); \
  (a)->pos != (b)->pos; })
#define BiIt_eq(a, b) ({ \
  __CPROVER_assert((a)->v == (b)->v, "bimap: only iterators of the same view are compared"); \
  (a)->pos == (b)->pos; })
/* it-> and *it */
#define BiIt_arrow(it) ({ \
  BiView *_v = (it)->v; long _k = (it)->pos; \
  __CPROVER_assert(0 <= _k && _k < _v->n, "bimap: iterator dereferenced only before end()"); \
  _v->last_pos = _k; \
  BiPair *_r = &_v->e[_k]; \
  /* ASSUMED (B3) */ \
  __CPROVER_assume(0 <= _r->first.number && _r->first.number < _v->kmax && 0 <= _r->second.number && _r->second.number < _v->kmax); \
  if (_v->gpos >= 0 && _k != _v->gpos) { \
    BiPair *_g = &_v->e[_v->gpos]; \
    /* ASSUMED (B1) */ \
    if (_k < _v->gpos) __CPROVER_assume(_r->first.number < _g->first.number); \
    if (_k > _v->gpos) __CPROVER_assume(_r->first.number > _g->first.number); \
    /* ASSUMED (B2) */ \
    __CPROVER_assume(_r->second.number != _g->second.number); \
  } \
  _r; })
#define BiIt_postinc(it) ({ \
  __CPROVER_assert(0 <= (it)->pos && (it)->pos < (it)->v->n, "bimap: end() is not incremented"); \
  (it)->pos++; })
#define BiIt_inc(it) ({ \
  __CPROVER_assert(0 <= (it)->pos && (it)->pos < (it)->v->n, "bimap: end() is not incremented"); \
  (it)->pos++; (it); })
static inline long BiView_find_pos(BiView *v, int key)
{
  long p = nondet_long();
  /* ASSUMED (B4) */
  __CPROVER_assume(0 <= p && p <= v->n);
  if (p < v->n) __CPROVER_assume(v->e[p].first.number == key);
  if (v->gpos >= 0) {
    if (v->e[v->gpos].first.number == key) __CPROVER_assume(p == v->gpos);
    else __CPROVER_assume(p != v->gpos);
  }
  return p;
}
#define BiView_find(v_, key_) ((BiIt){ (v_), BiView_find_pos((v_), (key_).number) })

#define BiLeft_begin BiView_begin
#define BiRight_begin BiView_begin
#define BiLeft_end BiView_end
#define BiRight_end BiView_end
#define BiLeft_size BiView_size
#define BiRight_size BiView_size
#define BiLeft_empty BiView_empty
#define BiRight_empty BiView_empty
#define BiLeft_find BiView_find
#define BiRight_find BiView_find
#define op_ne_BiLeftIt_BiLeftIt BiIt_ne
#define op_ne_BiRightIt_BiRightIt BiIt_ne
#define op_eq_BiLeftIt_BiLeftIt BiIt_eq
#define op_eq_BiRightIt_BiRightIt BiIt_eq
#define BiLeftIt_arrow BiIt_arrow
#define BiRightIt_arrow BiIt_arrow
#define BiLeftIt_deref BiIt_arrow
#define BiRightIt_deref BiIt_arrow
#define op_inc_BiLeftIt_int(it, unused_) BiIt_postinc(it)
#define op_inc_BiRightIt_int(it, unused_) BiIt_postinc(it)
#define BiLeftIt_inc BiIt_inc
#define BiRightIt_inc BiIt_inc
#endif
