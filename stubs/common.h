/* common.h -- ghost state and arithmetic helpers shared by all spec files.
 *
 * Everything in /verif/stubs is part of the TRUSTED BASE: C models of the dependencies
 * (DESIGN.md 3.2).  Each model *asserts* the dependency's pre-conditions (obligations on pomerol)
 * and *assumes* only what the dependency documents.
 */
#ifndef VERIF_COMMON_H
#define VERIF_COMMON_H
#include <stddef.h>

/* ---- exceptions: a ghost flag + early return (the exception object is dropped) */
int VERIF_thrown;
#define VERIF_THROW(cls) do { VERIF_thrown = 1; } while (0)

/* ---- reachability markers (vacuity guard): with -DVERIF_REACH every marker must FAIL */
#ifdef VERIF_REACH
#define REACH(label) __CPROVER_assert(0, "REACH:" label)
#else
#define REACH(label) ((void)0)
#endif

/* ---- double arithmetic.
 * default (VERIF_FP_UF): '*' and '/' on doubles are *commutative uninterpreted functions*
 *   (machine arithmetic treated as an abstract operation: congruence + commutativity of '*').
 *   Used for formula pins: the post-condition recomputes the documented expression and demands
 *   bit-equality, which holds iff the code computes the same expression tree modulo commutativity.
 * -DVERIF_FP_IEEE: bit-precise IEEE-754 semantics of CBMC (used for sign / range reasoning).
 */
static inline unsigned long d_bits(double a) { union { double d; unsigned long u; } x; x.d = a; return x.u; }
#define D_SAME(a, b) (d_bits(a) == d_bits(b))
#ifdef VERIF_FP_IEEE
#define D_MUL(a, b) ((a) * (b))
#define D_DIV(a, b) ((a) / (b))
#define D_ADD(a, b) ((a) + (b))
#define D_SUB(a, b) ((a) - (b))
#define D_NEG(a) (-(a))
#define D_LT(a, b) ((a) < (b))
#define D_GT(a, b) ((a) > (b))
#define D_LE(a, b) ((a) <= (b))
#define D_GE(a, b) ((a) >= (b))
#define D_EQ(a, b) ((a) == (b))
#define D_NE(a, b) ((a) != (b))
#else
/* VERIF_FP_UF: '*', '/', '+' on doubles are uninterpreted functions of the operands' bit patterns
 * (congruence only: NO commutativity, associativity or distributivity -- measured: ordering the operands
 * for commutativity makes CBMC's Ackermann expansion 10-100x slower).  Exact IEEE laws that are free:
 * -a is a sign flip, a-b = a+(-b), a > b is b < a, a >= b is b <= a, |a| clears the sign. */
double __CPROVER_uninterpreted_dmul(double, double);
double __CPROVER_uninterpreted_ddiv(double, double);
double __CPROVER_uninterpreted_dadd(double, double);
_Bool __CPROVER_uninterpreted_dlt(double, double);
_Bool __CPROVER_uninterpreted_dle(double, double);
_Bool __CPROVER_uninterpreted_deq(double, double);
static inline double d_frombits(unsigned long u) { union { double d; unsigned long u; } x; x.u = u; return x.d; }
#define D_SIGN 0x8000000000000000UL
#ifdef VERIF_FP_COMM
/* second-stage model, used by ./check ONLY to re-examine obligations that failed under the plain model: '+' and '*' additionally
 * commutative (an exact IEEE law), stated as an axiom instance at every application.  10x slower, hence not the default. */
static inline double d_mul(double a, double b)
{ double r = __CPROVER_uninterpreted_dmul(a, b); __CPROVER_assume(d_bits(r) == d_bits(__CPROVER_uninterpreted_dmul(b, a))); return r; }
static inline double d_add(double a, double b)
{ double r = __CPROVER_uninterpreted_dadd(a, b); __CPROVER_assume(d_bits(r) == d_bits(__CPROVER_uninterpreted_dadd(b, a))); return r; }
#else
#define d_mul(a, b) __CPROVER_uninterpreted_dmul((a), (b))
#define d_add(a, b) __CPROVER_uninterpreted_dadd((a), (b))
#endif
#define d_div(a, b) __CPROVER_uninterpreted_ddiv((a), (b))
#define d_eq(a, b) __CPROVER_uninterpreted_deq((a), (b))
#define D_MUL(a, b) d_mul((a), (b))
#define D_DIV(a, b) d_div((a), (b))
#define D_ADD(a, b) d_add((a), (b))
#define D_NEG(a) d_frombits(d_bits(a) ^ D_SIGN)
#define D_SUB(a, b) d_add((a), D_NEG(b))
#define D_LT(a, b) __CPROVER_uninterpreted_dlt((a), (b))
#define D_GT(a, b) __CPROVER_uninterpreted_dlt((b), (a))
#define D_LE(a, b) __CPROVER_uninterpreted_dle((a), (b))
#define D_GE(a, b) __CPROVER_uninterpreted_dle((b), (a))
#define D_EQ(a, b) d_eq((a), (b))
#define D_NE(a, b) (!d_eq((a), (b)))
#endif
/* ---- <cmath> / <algorithm> / <complex> vocabulary on doubles (tools/ast2c.py prints std:: calls without a //@free rule under these names)
 *   std::real(double x) = x, std::imag(double) = 0 (the real-scalar overloads of <complex>);
 *   std::min(a, b) = (b < a) ? b : a,  std::max(a, b) = (a < b) ? b : a  ([alg.min.max]: the FIRST argument when neither is smaller, also for NaN);
 *     both return `const double&`, so the printed call is `(*d_min(a, b))`: the macro yields the address of a temporary;
 *   std::floor / std::ceil: bit-precise (CBMC's model of libm) under VERIF_FP_IEEE; in the default mode an uninterpreted function of the
 *     argument (congruence only: NOT monotone, NOT idempotent, no relation to the argument is known). */
static inline double d_real(double x) { return x; }
static inline double d_imag(double x) { (void)x; return 0.0; }
static inline double d_min_v(double a, double b) { return D_LT(b, a) ? b : a; }
static inline double d_max_v(double a, double b) { return D_LT(a, b) ? b : a; }
#define d_min(a, b) ((double[1]){ d_min_v((a), (b)) })
#define d_max(a, b) ((double[1]){ d_max_v((a), (b)) })
#ifdef VERIF_FP_IEEE
double floor(double); double ceil(double);
#define d_floor(x) floor(x)
#define d_ceil(x) ceil(x)
#else
double __CPROVER_uninterpreted_dfloor(double);
double __CPROVER_uninterpreted_dceil(double);
#define d_floor(x) __CPROVER_uninterpreted_dfloor(x)
#define d_ceil(x) __CPROVER_uninterpreted_dceil(x)
#endif
/* std::hash<double>: a stateless function object.  libstdc++ (bits/functional_hash.h): 0 for +0.0 and -0.0, otherwise a hash of the
 * object representation -- modelled as an UNINTERPRETED function of the bit pattern: equal arguments give equal values and nothing else
 * is known (in particular it is NOT assumed injective). */
typedef struct StdHashD { char stateless; } StdHashD;
unsigned long __CPROVER_uninterpreted_stdhash_double(unsigned long);
#define StdHashD_ctor0() (*(StdHashD[1]){ { 0 } })
static inline unsigned long StdHashD_call(StdHashD *h, double x)
{ (void)h; return (d_bits(x) << 1) == 0UL ? 0UL : __CPROVER_uninterpreted_stdhash_double(d_bits(x)); }
static inline _Bool d_finite(double x) { return x == x && x - x == 0.0; }   /* not NaN, not +-inf */

/* nondeterministic values */
long nondet_long(void); int nondet_int(void); unsigned long nondet_ulong(void); double nondet_double(void); _Bool nondet_bool(void);

#endif
