/* common.h -- ghost state and arithmetic helpers shared by all spec files.
 *
 * Everything in /verif/stubs is part of the TRUSTED BASE: C models of the dependencies
 * (DESIGN.md 3.2).  Each model *asserts* the dependency's pre-conditions (obligations on pomerol)
 * and *assumes* only what the dependency documents.
 */
#ifndef VERIF_COMMON_H
#define VERIF_COMMON_H
#include <stddef.h>

/* ---- exceptions: a ghost flag + early return (the exception object is dropped) */
int VERIF_thrown;
#define VERIF_THROW(cls) do { VERIF_thrown = 1; } while (0)

/* ---- reachability markers (vacuity guard): with -DVERIF_REACH every marker must FAIL */
#ifdef VERIF_REACH
#define REACH(label) __CPROVER_assert(0, "REACH:" label)
#else
#define REACH(label) ((void)0)
#endif

/* ---- double arithmetic.
 * default (VERIF_FP_UF): '*' and '/' on doubles are *commutative uninterpreted functions*
 *   (machine arithmetic treated as an abstract operation: congruence + commutativity of '*').
 *   Used for formula pins: the post-condition recomputes the documented expression and demands
 *   bit-equality, which holds iff the code computes the same expression tree modulo commutativity.
 * -DVERIF_FP_IEEE: bit-precise IEEE-754 semantics of CBMC (used for sign / range reasoning).
 */
static inline unsigned long d_bits(double a) { union { double d; unsigned long u; } x; x.d = a; return x.u; }
#define D_SAME(a, b) (d_bits(a) == d_bits(b))
#ifdef VERIF_FP_IEEE
#define D_MUL(a, b) ((a) * (b))
#define D_DIV(a, b) ((a) / (b))
#define D_ADD(a, b) ((a) + (b))
#define D_SUB(a, b) ((a) - (b))
#define D_NEG(a) (-(a))
#define D_LT(a, b) ((a) < (b))
#define D_GT(a, b) ((a) > (b))
#define D_LE(a, b) ((a) <= (b))
#define D_GE(a, b) ((a) >= (b))
#define D_EQ(a, b) ((a) == (b))
#define D_NE(a, b) ((a) != (b))
#else
/* VERIF_FP_UF: operations on doubles are uninterpreted functions of the operands' bit patterns, made
 * to satisfy the sign laws that IEEE-754 arithmetic satisfies exactly:
 *   a*b = sign(a)^sign(b) . uf(|a|,|b|)  (commutative),   a/b likewise,   -a = sign flip (native),
 *   a+b commutative, (-a)+(-b) = -(a+b),   a-b = a+(-b),   a > b is b < a,  a >= b is b <= a.
 * No associativity / distributivity (not exact in IEEE either). */
double __CPROVER_uninterpreted_dmul(double, double);
double __CPROVER_uninterpreted_ddiv(double, double);
double __CPROVER_uninterpreted_dadd(double, double);
_Bool __CPROVER_uninterpreted_dlt(double, double);
_Bool __CPROVER_uninterpreted_dle(double, double);
_Bool __CPROVER_uninterpreted_deq(double, double);
static inline double d_frombits(unsigned long u) { union { double d; unsigned long u; } x; x.u = u; return x.d; }
#define D_SIGN 0x8000000000000000UL
static inline double d_mul(double a, double b)
{
  unsigned long ua = d_bits(a), ub = d_bits(b);
  unsigned long ma = ua & ~D_SIGN, mb = ub & ~D_SIGN;
  double r = ma <= mb ? __CPROVER_uninterpreted_dmul(d_frombits(ma), d_frombits(mb)) : __CPROVER_uninterpreted_dmul(d_frombits(mb), d_frombits(ma));
  return ((ua ^ ub) & D_SIGN) ? d_frombits(d_bits(r) ^ D_SIGN) : r;
}
static inline double d_div(double a, double b)
{
  unsigned long ua = d_bits(a), ub = d_bits(b);
  double r = __CPROVER_uninterpreted_ddiv(d_frombits(ua & ~D_SIGN), d_frombits(ub & ~D_SIGN));
  return ((ua ^ ub) & D_SIGN) ? d_frombits(d_bits(r) ^ D_SIGN) : r;
}
static inline double d_add(double a, double b)
{
  unsigned long ua = d_bits(a), ub = d_bits(b);
  unsigned long ma = ua & ~D_SIGN, mb = ub & ~D_SIGN;
  /* s: sign of the operand of larger magnitude (equal magnitudes: the common sign, else +) */
  unsigned long s = ma > mb ? (ua & D_SIGN) : (mb > ma ? (ub & D_SIGN) : (ua & ub & D_SIGN));
  unsigned long xa = ua ^ s, xb = ub ^ s;          /* both negated iff s */
  double r = xa <= xb ? __CPROVER_uninterpreted_dadd(d_frombits(xa), d_frombits(xb)) : __CPROVER_uninterpreted_dadd(d_frombits(xb), d_frombits(xa));
  return s ? d_frombits(d_bits(r) ^ D_SIGN) : r;
}
static inline _Bool d_eq(double a, double b)
{ return d_bits(a) <= d_bits(b) ? __CPROVER_uninterpreted_deq(a, b) : __CPROVER_uninterpreted_deq(b, a); }
#define D_MUL(a, b) d_mul((a), (b))
#define D_DIV(a, b) d_div((a), (b))
#define D_ADD(a, b) d_add((a), (b))
#define D_NEG(a) d_frombits(d_bits(a) ^ D_SIGN)
#define D_SUB(a, b) d_add((a), D_NEG(b))
#define D_LT(a, b) __CPROVER_uninterpreted_dlt((a), (b))
#define D_GT(a, b) __CPROVER_uninterpreted_dlt((b), (a))
#define D_LE(a, b) __CPROVER_uninterpreted_dle((a), (b))
#define D_GE(a, b) __CPROVER_uninterpreted_dle((b), (a))
#define D_EQ(a, b) d_eq((a), (b))
#define D_NE(a, b) (!d_eq((a), (b)))
#endif
static inline _Bool d_finite(double x) { return x == x && x - x == 0.0; }   /* not NaN, not +-inf */

/* nondeterministic values */
long nondet_long(void); int nondet_int(void); unsigned long nondet_ulong(void); double nondet_double(void); _Bool nondet_bool(void);

#endif
