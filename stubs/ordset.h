/* ordset.h -- std::set<T,Compare> (libstdc++ red-black tree), two views.  The macros are untyped
 * (duck-typed on the field names), a spec file declares the concrete types with OSA_DECL / OSG_DECL
 * and maps the printed names (`TermSet_begin`, `TermSetIt_inc`, ...) onto them.
 *
 * (A) ITERATION VIEW  (OSA_*): the stored elements in comparator order as an array elems[0..n).
 *     begin() = position 0, end() = position n, ++it = next position, *it = elems[pos].
 *     ASSERTED (obligations on pomerol): *it and ++it only on an iterator before end().
 *     ASSUMED: nothing (the order of the elements is not constrained; a client that needs
 *     "strictly increasing under Compare" must state it point-wise against gpos itself).
 *     Ghost: gpos = one arbitrary position fixed by the harness (or -1); last_deref = position of the
 *     most recent *it; last_acc / hits are owned by the client's monitor.
 *
 * (B) GHOST-ELEMENT VIEW (OSG_*): find / insert / erase(key) / size / end for ONE observed stored
 *     element (ghas,gval) and one arbitrary *other* stored element (the witness `w`, chosen by the
 *     harness, ohas = "the set has stored elements besides the observed one, and w is one of them").
 *     Because both are arbitrary, a statement proved for them holds for every stored element.
 *     The client supplies OSG_EQUIV(s,a,b) = !comp(a,b) && !comp(b,a) built from the *extracted*
 *     comparator.  Semantics (C++ [associative.reqmts], libstdc++ stl_tree.h):
 *       find(k)   : an element equivalent to k, end() if there is none
 *       insert(v) : inserts v iff no stored element is equivalent to v
 *       erase(k)  : removes the stored elements equivalent to k, returns their number
 *     ASSUMED (type invariant of std::set, point-wise against the observed element and the witness):
 *       stored elements are pairwise NOT equivalent:           !EQUIV(w, gval)
 *       size() = number of stored elements:                    size >= ghas + ohas
 *     Knowledge the model keeps between calls (all of it is a consequence of the semantics above):
 *       nf_valid/nf_key: "no stored element is equivalent to nf_key" (after find(k)==end(), after
 *       erase(k)); it is dropped by insert.  It is applied to the witness: !EQUIV(w, nf_key).
 *     The comparator is NOT assumed to be a strict weak ordering: when the observed element is
 *     equivalent to k, find(k) may still return another equivalent element (kind OTHER).
 */
#ifndef VERIF_ORDSET_H
#define VERIF_ORDSET_H
#include "common.h"
#define OS_MAX 1000000L

/* ------------------------------------------------------------------ (A) iteration view */
#define OSA_DECL(Set, It, Elem) \
  typedef struct Set { long n; Elem *elems; long gpos, last_deref, last_acc; unsigned long hits; } Set; \
  typedef struct It { Set *s; long pos; } It;
#define OSA_wf(s_) ((s_)->n >= 0 && (s_)->n <= OS_MAX && __CPROVER_is_fresh((s_)->elems, (s_)->n * sizeof(*(s_)->elems)) && \
                    (s_)->gpos >= -1 && (s_)->gpos < (s_)->n)
#define OSA_begin(It, s_) ({ It _it; _it.s = (s_); _it.pos = 0; _it; })
#define OSA_end(It, s_) ({ It _it; _it.s = (s_); _it.pos = (s_)->n; _it; })
#define OSA_ne(a, b) ((a).pos != (b).pos)
#define OSA_eq(a, b) ((a).pos == (b).pos)
#define OSA_inc(it) ({ \
  __CPROVER_assert(0 <= (it)->pos && (it)->pos < (it)->s->n, "std::set iterator: ++ only before end()"); \
  (it)->pos++; (it); })
#define OSA_deref(it) ({ \
  __CPROVER_assert(0 <= (it)->pos && (it)->pos < (it)->s->n, "std::set iterator: * only before end()"); \
  (it)->s->last_deref = (it)->pos; \
  &(it)->s->elems[(it)->pos]; })
#define OSA_size(s_) ((unsigned long)(s_)->n)

/* ------------------------------------------------------------------ (B) ghost-element view */
enum { OSG_END = 0, OSG_GHOST = 1, OSG_OTHER = 2 };
#define OSG_DECL(Set, It, Elem) \
  typedef struct Set { \
    unsigned long size; \
    _Bool ghas; Elem gval;        /* the observed stored element */ \
    _Bool ohas; Elem w;           /* witness: an arbitrary stored element other than the observed one */ \
    _Bool nf_valid; Elem nf_key;  /* no stored element is equivalent to nf_key */ \
    /* log of the calls (ghost, read by post-conditions) */ \
    int find_kind; Elem find_val; unsigned long n_find, n_insert_calls, n_inserted, n_erase_calls, n_erased; Elem last_inserted; \
  } Set; \
  typedef struct It { int kind; Elem val; } It;
/* type invariant (requires clause) */
#define OSG_wf(s_) ((s_)->size <= OS_MAX && (s_)->size >= (unsigned long)(s_)->ghas + (unsigned long)(s_)->ohas)
#define OSG_end(It, s_) ({ It _it; _it.kind = OSG_END; _it; })
#define OSG_eq(a, b) ((a).kind == (b).kind)   /* only comparisons against end() are meaningful */
#define OSG_ne(a, b) ((a).kind != (b).kind)
#define OSG_size(s_) ((s_)->size)
#endif
