/* ordset.h -- std::set<T,Compare> (libstdc++ red-black tree), two views.  The macros are untyped
 * (duck-typed on the field names), a spec file declares the concrete types with OSA_DECL / OSG_DECL
 * and maps the printed names (`TermSet_begin`, `TermSetIt_inc`, ...) onto them.
 *
 * (A) ITERATION VIEW  (OSA_*): the stored elements in comparator order as an array elems[0..n).
 *     begin() = position 0, end() = position n, ++it = next position, *it = elems[pos].
 *     ASSERTED (obligations on pomerol): *it and ++it only on an iterator before end().
 *     ASSUMED: nothing (the order of the elements is not constrained; a client that needs
 *     "strictly increasing under Compare" must state it point-wise against gpos itself).
 *     Ghost: gpos = one arbitrary position fixed by the harness (or -1); last_deref = position of the
 *     most recent *it; last_acc / hits are owned by the client's monitor.
 *
 * (B) GHOST-ELEMENT VIEW (OSG_*): find / insert / erase(key) / size / end, seen through ONE observed stored
 *     element (ghas, gval) that the harness leaves arbitrary (or absent), so a statement proved about it holds for
 *     every stored element; the rest of the set is abstract.  The client supplies OSG_EQUIV(s,a,b) =
 *     !comp(a,b) && !comp(b,a) built from the comparator EXTRACTED from pomerol.
 *     Semantics (C++ [associative.reqmts], libstdc++ stl_tree.h):
 *       find(k)   : an element equivalent to k, end() if there is none
 *       insert(v) : inserts v iff no stored element is equivalent to v
 *       erase(k)  : removes the stored elements equivalent to k, returns their number
 *     ASSERTED (obligations on pomerol): *it only before end() and only while the element is stored.
 *     ASSUMED (requirement on Compare): comp(x,x) is false, used only in erase(k) when k is bit-equal to a stored element
 *       (for GreensFunctionPart::Term::Compare proved bit-precisely for Tolerance > 0: specs/termlist.c h_Compare_order).
 *     ASSUMED (class invariant of std::set): stored elements are pairwise NOT equivalent -- applied point-wise to the
 *       observed element, to the element returned by the last find() (fo_val) and to the per-call existential
 *       witness x of insert ("some other stored element is equivalent to v"); size() >= number of known elements.
 *     Knowledge kept between calls (consequences of the semantics above, not extra assumptions):
 *       nf_valid/nf_key: "no stored element is equivalent to nf_key" (after find(k)==end() and after erase(k);
 *       dropped by insert); applied to the witness x of insert.
 *     The comparator is NOT assumed to be a strict weak ordering (pomerol's tolerance comparators are not):
 *       when the observed element is equivalent to k, find(k) may still return another equivalent element (kind OTHER).
 *       What IS used: if the observed element is equivalent to k then find(k) != end().
 */
#ifndef VERIF_ORDSET_H
#define VERIF_ORDSET_H
#include "common.h"
#define OS_MAX 1000000L

/* ------------------------------------------------------------------ (A) iteration view */
#define OSA_DECL(Set, It, Elem) \
  typedef struct Set { long n; Elem *elems; long gpos, last_deref, last_acc; unsigned long hits; } Set; \
  typedef struct It { Set *s; long pos; } It;
#define OSA_wf(s_) ((s_)->n >= 0 && (s_)->n <= OS_MAX && __CPROVER_is_fresh((s_)->elems, (s_)->n * sizeof(*(s_)->elems)) && \
                    (s_)->gpos >= -1 && (s_)->gpos < (s_)->n)
#define OSA_begin(It, s_) ({ It _it; _it.s = (s_); _it.pos = 0; _it; })
#define OSA_end(It, s_) ({ It _it; _it.s = (s_); _it.pos = (s_)->n; _it; })
#define OSA_ne(a, b) ((a).pos != (b).pos)
#define OSA_eq(a, b) ((a).pos == (b).pos)
#define OSA_inc(it) ({ \
  __CPROVER_assert(0 <= (it)->pos && (it)->pos < (it)->s->n, "std::set iterator: ++ only before end()"); \
  (it)->pos++; (it); })
#define OSA_deref(it) ({ \
  __CPROVER_assert(0 <= (it)->pos && (it)->pos < (it)->s->n, "std::set iterator: * only before end()"); \
  (it)->s->last_deref = (it)->pos; \
  &(it)->s->elems[(it)->pos]; })
#define OSA_size(s_) ((unsigned long)(s_)->n)

/* ------------------------------------------------------------------ (B) ghost-element view
 * One instantiation per spec file.  Before using the macros the client defines
 *   OSG_EQUIV(s, a, b)   !comp(a,b) && !comp(b,a) with the comparator stored in the set (s->comp), comp EXTRACTED from pomerol
 *   OSG_SAME(a, b)       bit-equality of two elements
 *   OSG_NONDET()         an arbitrary element (declared by OSG_DECL as nondet_<Set>_elem)
 */
enum { OSG_END = 0, OSG_GHOST = 1, OSG_OTHER = 2 };
#define OSG_DECL(Set, It, Elem, Comp) \
  typedef struct Set { \
    Comp comp;                    /* the comparator object the set was constructed with */ \
    unsigned long size; \
    _Bool ghas; Elem gval;        /* the observed stored element (ghost: arbitrary) */ \
    _Bool fo_valid; Elem fo_val;  /* another stored element, the one the last find() returned (kind OTHER) */ \
    _Bool nf_valid; Elem nf_key;  /* knowledge: no stored element is equivalent to nf_key */ \
    /* log of the calls (ghost, read by post-conditions) */ \
    int find_kind; Elem find_val; Elem last_inserted; \
    unsigned long n_find, n_insert_calls, n_inserted, n_erase_calls, n_erased; \
  } Set; \
  typedef struct It { Set *s; int kind; Elem val; } It; \
  Elem nondet_##Set##_elem(void);
/* type invariant + fresh log (requires clause) */
#define OSG_wf(s_) ((s_)->size <= OS_MAX && (s_)->size >= (unsigned long)(s_)->ghas && !(s_)->fo_valid && !(s_)->nf_valid && \
                    (s_)->n_find == 0 && (s_)->n_insert_calls == 0 && (s_)->n_inserted == 0 && (s_)->n_erase_calls == 0 && (s_)->n_erased == 0)
#define OSG_end(It, s_) ({ It _e; _e.s = (s_); _e.kind = OSG_END; _e; })
#define OSG_eq(a, b) ((a).kind == (b).kind)   /* only comparisons against end() are meaningful in this view */
#define OSG_ne(a, b) ((a).kind != (b).kind)
#define OSG_size(s_) ((s_)->size)
/* find(k): an element equivalent to k, end() if there is none */
#define OSG_find(It, s_, k_) ({ \
  It _r; _r.s = (s_); _r.val = (k_); \
  _Bool _geq = _r.s->ghas && OSG_EQUIV(_r.s, _r.s->gval, _r.val); \
  int _c = nondet_int(); \
  if (_c == OSG_GHOST) { \
    __CPROVER_assume(_geq);                                   /* the observed element, only if it is equivalent to k */ \
    _r.kind = OSG_GHOST; _r.val = _r.s->gval; REACH("set_find_observed"); \
  } else if (_c == OSG_OTHER) { \
    _r.kind = OSG_OTHER; _r.val = OSG_NONDET();               /* some other stored element o ... */ \
    __CPROVER_assume(_r.s->size > (unsigned long)_r.s->ghas); \
    __CPROVER_assume(OSG_EQUIV(_r.s, _r.val, (k_)));         /* ... equivalent to k (semantics of find) */ \
    __CPROVER_assume(!_r.s->ghas || !OSG_EQUIV(_r.s, _r.val, _r.s->gval));   /* ASSUMED set invariant: stored elements pairwise not equivalent */ \
    _r.s->fo_valid = 1; _r.s->fo_val = _r.val; REACH("set_find_other"); \
  } else { \
    __CPROVER_assume(!_geq);                                  /* end() only if NO stored element is equivalent to k */ \
    _r.kind = OSG_END; _r.s->nf_valid = 1; _r.s->nf_key = _r.val; REACH("set_find_end"); \
  } \
  _r.s->find_kind = _r.kind; _r.s->find_val = _r.val; _r.s->n_find++; \
  _r; })
/* *it: only before end() and only while the element is still stored (erase invalidates the iterator) */
#define OSG_deref(it) ({ \
  __CPROVER_assert((it)->kind != OSG_END, "std::set iterator: * only before end()"); \
  __CPROVER_assert((it)->kind == OSG_GHOST ? ((it)->s->ghas && OSG_SAME((it)->s->gval, (it)->val)) \
                                           : ((it)->s->fo_valid && OSG_SAME((it)->s->fo_val, (it)->val)), \
                   "std::set iterator: * only while the element is stored (erase invalidates)"); \
  &(it)->val; })
/* insert(v): v is inserted iff no stored element is equivalent to v.  A newly inserted element becomes the observed
 * one if no element is being observed. */
#define OSG_insert(s_, v_) ({ \
  __typeof__(s_) _s = (s_); __typeof__(_s->gval) _v = (v_); \
  _s->n_insert_calls++; \
  _Bool _blocked = (_s->ghas && OSG_EQUIV(_s, _s->gval, _v)) || (_s->fo_valid && OSG_EQUIV(_s, _s->fo_val, _v)); \
  if (!_blocked) { \
    /* is one of the remaining stored elements equivalent to v?  If so there is a witness x, and x obeys what is known */ \
    _Bool _b = nondet_bool(); __typeof__(_s->gval) _x = OSG_NONDET(); \
    __CPROVER_assume(!_b || (_s->size > (unsigned long)_s->ghas + (unsigned long)_s->fo_valid && OSG_EQUIV(_s, _x, _v) && \
                             (!_s->ghas || !OSG_EQUIV(_s, _x, _s->gval)) &&        /* ASSUMED set invariant */ \
                             (!_s->fo_valid || !OSG_EQUIV(_s, _x, _s->fo_val)) &&  /* ASSUMED set invariant */ \
                             (!_s->nf_valid || !OSG_EQUIV(_s, _x, _s->nf_key))));  /* established by find()==end() / erase() */ \
    _blocked = _b; \
  } \
  if (!_blocked) { \
    _s->size++; _s->n_inserted++; _s->last_inserted = _v; \
    if (!_s->ghas) { _s->ghas = 1; _s->gval = _v; } \
    REACH("set_inserted"); \
  } else REACH("set_insert_blocked"); \
  _s->nf_valid = 0; \
  !_blocked; })
/* erase(k): removes every stored element equivalent to k, returns their number */
#define OSG_erase(s_, k_) ({ \
  __typeof__(s_) _s = (s_); __typeof__(_s->gval) _k = (k_); unsigned long _cnt = 0; \
  _s->n_erase_calls++; \
  /* k is the value of a stored element ==> (ASSUMED set invariant) no OTHER stored element is equivalent to k */ \
  _Bool _stored_value = (_s->ghas && OSG_SAME(_s->gval, _k)) || (_s->fo_valid && OSG_SAME(_s->fo_val, _k)); \
  /* ASSUMED: comp is irreflexive (requirement on Compare, [alg.sorting]), i.e. every element is equivalent to itself */ \
  if (_s->ghas && OSG_SAME(_s->gval, _k)) __CPROVER_assume(OSG_EQUIV(_s, _s->gval, _k)); \
  if (_s->fo_valid && OSG_SAME(_s->fo_val, _k)) __CPROVER_assume(OSG_EQUIV(_s, _s->fo_val, _k)); \
  if (_s->ghas && OSG_EQUIV(_s, _s->gval, _k)) { _s->ghas = 0; _cnt++; } \
  if (_s->fo_valid && OSG_EQUIV(_s, _s->fo_val, _k)) { _s->fo_valid = 0; _cnt++; } \
  if (!_stored_value) { unsigned long _m = nondet_ulong(); __CPROVER_assume(_m <= _s->size - _cnt - (unsigned long)_s->ghas - (unsigned long)_s->fo_valid); _cnt += _m; } \
  _s->size -= _cnt; _s->n_erased += _cnt; REACH("set_erase"); \
  _s->nf_valid = 1; _s->nf_key = _k; \
  _cnt; })
/* twins for the other spelling of an increment (`++it` for `it++` and vice versa): same effect.  X_inc yields the iterator after the step
 * (exact); X_postinc made from X_inc is void, so a use of its value does not compile (UNDECIDED) instead of being modelled wrongly */
#define OSA_postinc(it_) ((void)OSA_inc(it_))
#endif
