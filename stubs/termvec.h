/* termvec.h -- the std::vector members of Lattice::Term (OperatorSequence, SiteLabels, Spins, Orbitals) as small
 * fixed arrays + size (DESIGN 3.2: std::vector = array + size with bounds assertions).
 * DOMAIN: terms of at most TV_MAX = 6 operators (C04 quantifies over terms of 2, 4 and 6 operators); a longer
 *   vector is an assertion failure of the model ("capacity"), never silently truncated.
 * ASSERTED (obligations on pomerol): operator[] inside the vector; assign(first,last) with first <= last.
 * ASSUMED: resize(n) value-initialises; assign(first,last) copies [first,last) and sets the size.
 */
#ifndef VERIF_TERMVEC_H
#define VERIF_TERMVEC_H
#include "common.h"
#include "strlabel.h"
#define TV_MAX 6
typedef struct VecBool { _Bool d[TV_MAX]; unsigned long size; } VecBool;
typedef struct VecLabel { label_t d[TV_MAX]; unsigned long size; } VecLabel;
typedef struct VecUS { unsigned short d[TV_MAX]; unsigned long size; } VecUS;
#define TV_AT(v, i) (__CPROVER_assert((unsigned long)(i) < (v)->size && (v)->size <= TV_MAX, "std::vector operator[]: index inside the vector"), &(v)->d[(unsigned long)(i)])
#define VecBool_at(v, i) TV_AT(v, i)
#define VecLabel_at(v, i) TV_AT(v, i)
#define VecUS_at(v, i) TV_AT(v, i)
#define VecBool_ctor0() ((VecBool){ { 0 }, 0 })      /* default-constructed: empty */
#define VecLabel_ctor0() ((VecLabel){ { 0 }, 0 })
#define VecUS_ctor0() ((VecUS){ { 0 }, 0 })
#define VecBool_size(v) ((v)->size)
#define VecLabel_size(v) ((v)->size)
#define VecUS_size(v) ((v)->size)
#define TV_ASSIGN(v, first, last) { \
  long _n = (last) - (first); \
  __CPROVER_assert(0 <= _n && _n <= TV_MAX, "std::vector assign: valid range within the model capacity (6)"); \
  if (_n > 0) (v)->d[0] = (first)[0]; if (_n > 1) (v)->d[1] = (first)[1]; if (_n > 2) (v)->d[2] = (first)[2]; \
  if (_n > 3) (v)->d[3] = (first)[3]; if (_n > 4) (v)->d[4] = (first)[4]; if (_n > 5) (v)->d[5] = (first)[5]; \
  (v)->size = (unsigned long)_n; }
#define TV_RESIZE(v, n_) { \
  __CPROVER_assert((unsigned long)(n_) <= TV_MAX, "std::vector resize: within the model capacity (6)"); \
  (v)->d[0] = 0; (v)->d[1] = 0; (v)->d[2] = 0; (v)->d[3] = 0; (v)->d[4] = 0; (v)->d[5] = 0; (v)->size = (unsigned long)(n_); }
#define VecBool_assign(v, a, b) TV_ASSIGN(v, a, b)
#define VecLabel_assign(v, a, b) TV_ASSIGN(v, a, b)
#define VecUS_assign(v, a, b) TV_ASSIGN(v, a, b)
#define VecBool_resize(v, n) TV_RESIZE(v, n)
#define VecLabel_resize(v, n) TV_RESIZE(v, n)
#define VecUS_resize(v, n) TV_RESIZE(v, n)
#endif
