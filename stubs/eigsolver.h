/* eigsolver.h -- Eigen::SelfAdjointEigenSolver<MatrixType> as an OPAQUE dependency (DESIGN.md 3.2).
 * Eigen 3.4 SelfAdjointEigenSolver.h: compute() asserts `matrix.cols() == matrix.rows()` (line 427, eigen_assert --
 * dropped under NDEBUG, therefore an obligation on pomerol here); eigenvalues(): "The eigenvalues are repeated
 * according to their algebraic multiplicity ... sorted in increasing order" (line 292).
 *
 * ASSERTED: the input is square.
 * ASSUMED (every clause is a documented guarantee of Eigen, none is checked here):
 *   A1  eigenvalues() has as many coefficients as the input has rows;
 *   A2  eigenvectors() has the shape of the input;
 *   A3  the eigenvalues are in increasing order: eval[a] <= eval[b] for a <= b -- instantiated point-wise at the ghost
 *       pair (eig_g_a, eig_g_b), which harnesses leave arbitrary (the transitive form, so that "first = smallest" needs
 *       no induction);
 *   A4  for an input without NaN/inf (ghost flag eig_g_input_finite: that hypothesis, a quantified statement about the
 *       input which this model cannot evaluate) every eigenvalue is finite -- instantiated at eig_g_b;
 *   A5  info() == Success.  pomerol never looks at info(); NoConvergence is outside this model.
 * Orthonormality of the eigenvectors and H v = E v are NOT used by any obligation and are not assumed.
 */
#ifndef VERIF_EIGSOLVER_H
#define VERIF_EIGSOLVER_H
#include "common.h"
#include "dense.h"
enum { EigenvaluesOnly = 0x40, ComputeEigenvectors = 0x80 };
typedef struct EigSolver { RealMatrix evec; RealVector eval; } EigSolver;
long eig_g_a, eig_g_b; _Bool eig_g_input_finite;
static inline EigSolver EigSolver_ctor2(const RealMatrix *A, int options)
{
  EigSolver s;
  __CPROVER_assert(A->rows == A->cols, "SelfAdjointEigenSolver: the input matrix is square");
  __CPROVER_assert(options == ComputeEigenvectors || options == EigenvaluesOnly, "SelfAdjointEigenSolver: valid options");
  s.evec.rows = A->rows; s.evec.cols = A->cols;                                   /* ASSUMED A2 */
  s.evec.data = malloc(DENSE_BYTES(A->rows));
  s.eval.size = A->rows;                                                          /* ASSUMED A1 */
  s.eval.data = malloc((size_t)A->rows * 8UL);
  __CPROVER_assume(s.evec.data != (double *)0 && s.eval.data != (double *)0);     /* ASSUMED: allocation succeeds */
  if (0 <= eig_g_a && eig_g_a <= eig_g_b && eig_g_b < s.eval.size)
    __CPROVER_assume(D_LE(s.eval.data[eig_g_a], s.eval.data[eig_g_b]));           /* ASSUMED A3 */
  if (eig_g_input_finite && 0 <= eig_g_b && eig_g_b < s.eval.size)
    __CPROVER_assume(d_finite(s.eval.data[eig_g_b]));                             /* ASSUMED A4 */
  REACH("eigensolver");
  return s;
}
static inline RealMatrix *EigSolver_eigenvectors(EigSolver *s) { return &s->evec; }
static inline RealVector *EigSolver_eigenvalues(EigSolver *s) { return &s->eval; }
#endif
