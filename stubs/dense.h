/* dense.h -- Eigen dense vector / matrix of doubles (dynamic size).
 * ASSERTED: every coefficient access is inside the object (Eigen checks this only without NDEBUG).
 * Storage: vectors contiguous; matrices column-major as in pomerol's typedefs. */
#ifndef VERIF_DENSE_H
#define VERIF_DENSE_H
#include "common.h"
typedef struct RealVector { long size; double *data; } RealVector;
static inline _Bool RealVector_wf(RealVector *v, long maxsize)
{ return v->size >= 0 && v->size <= maxsize && __CPROVER_is_fresh(v->data, v->size * sizeof(double)); }
static inline double *RealVector_call(RealVector *v, long i)
{
  __CPROVER_assert(0 <= i && i < v->size, "Eigen vector coefficient access inside the vector");
  return &v->data[i];
}
#define RealVector_at RealVector_call
static inline long RealVector_size(RealVector *v) { return v->size; }

/* ---- additions for HamiltonianPart / FieldOperatorPart / DensityMatrixPart (pkgC) -------------------------------
 * RealMatrix = Eigen::Matrix<double,Dynamic,Dynamic,RowMajor> (pomerol's MatrixType/RealMatrixType are declared
 * with Eigen::RowMajor in Misc.h).  Model: row-major storage with a FIXED leading dimension DENSE_MAXDIM, i.e.
 * coefficient (i,j) lives at data[i*DENSE_MAXDIM + j].  No obligation depends on the storage layout; what matters is
 * that distinct (i,j) inside the matrix are distinct cells of one object, and a constant stride keeps the index
 * arithmetic linear (a symbolic stride `cols` makes every aliasing question a 64-bit multiplication for the solver).
 * ASSERTED: (i,j) inside the matrix at every coefficient access, resize with non-negative sizes <= DENSE_MAXDIM.
 * ASSUMED: resize succeeds (Eigen throws std::bad_alloc otherwise; that exit is not modelled) and leaves the
 *   coefficients unspecified; setZero writes 0.0 to every coefficient; rows()/cols() report the dimensions. */
#define DENSE_MAXDIM (1L << 20)   /* largest dimension of the model (a 2^20 x 2^20 matrix of doubles is 8 TB) */
#define DENSE_BYTES(rows) ((size_t)(rows) * (size_t)DENSE_MAXDIM * 8UL)
#define DENSE_IDX(i, j) ((i) * DENSE_MAXDIM + (j))
typedef struct RealMatrix { long rows, cols; double *data; } RealMatrix;
static inline _Bool RealMatrix_wf(RealMatrix *m, long maxdim)
{ return m->rows >= 0 && m->rows <= maxdim && m->cols >= 0 && m->cols <= maxdim && maxdim <= DENSE_MAXDIM &&
         __CPROVER_is_fresh(m->data, DENSE_BYTES(m->rows)); }
static inline double *RealMatrix_call(RealMatrix *m, long i, long j)
{
  __CPROVER_assert(0 <= i && i < m->rows, "Eigen matrix coefficient access: row inside the matrix");
  __CPROVER_assert(0 <= j && j < m->cols, "Eigen matrix coefficient access: column inside the matrix");
  return &m->data[DENSE_IDX(i, j)];
}
static inline long RealMatrix_rows(RealMatrix *m) { return m->rows; }
static inline long RealMatrix_cols(RealMatrix *m) { return m->cols; }
void *malloc(size_t);   /* sizes are written `n * 8UL`, not `n * sizeof(double)`: with the sizeof form CBMC 6.11 types the object
                            double[n] and __CPROVER_array_replace between two such objects loses the contents (spurious failures) */
static inline void RealMatrix_resize(RealMatrix *m, long r, long c)
{
  __CPROVER_assert(r >= 0 && c >= 0, "Eigen resize: non-negative dimensions");
  __CPROVER_assert(r <= DENSE_MAXDIM && c <= DENSE_MAXDIM, "dense model: dimension within DENSE_MAXDIM");
  m->rows = r; m->cols = c;
  m->data = malloc(DENSE_BYTES(r));
  __CPROVER_assume(m->data != (double *)0);   /* ASSUMED: allocation succeeds */
}
static inline void RealMatrix_setZero(RealMatrix *m)
{ if (m->rows > 0) __CPROVER_array_set(m->data, 0.0); }
static inline void RealVector_resize(RealVector *v, long n)
{
  __CPROVER_assert(n >= 0, "Eigen resize: non-negative size");
  __CPROVER_assert(n <= DENSE_MAXDIM * DENSE_MAXDIM, "dense model: size representable");
  v->size = n;
  v->data = malloc((size_t)n * 8UL);
  __CPROVER_assume(v->data != (double *)0);   /* ASSUMED: allocation succeeds */
}
/* `v << x;` (CommaInitializer with ONE value): Eigen asserts on destruction of the initializer that the whole
 * object was filled, i.e. size()==1.  ASSERTED. */
static inline void RealVector_shl(RealVector *v, const double *x)
{
  __CPROVER_assert(v->size == 1, "Eigen comma initializer with one value: the vector has exactly one coefficient");
  v->data[0] = *x;
  REACH("comma-init");
}
/* `dst = src;` (Eigen dense assignment): dst takes src's dimensions and a copy of every coefficient. */
static inline void RealMatrix_assign(RealMatrix *dst, const RealMatrix *src)
{
  dst->rows = src->rows; dst->cols = src->cols;
  dst->data = malloc(DENSE_BYTES(src->rows));
  __CPROVER_assume(dst->data != (double *)0);   /* ASSUMED: allocation succeeds */
  if (src->rows > 0) __CPROVER_array_replace(dst->data, src->data);
}
static inline void RealVector_assign(RealVector *dst, const RealVector *src)
{
  dst->size = src->size;
  dst->data = malloc((size_t)src->size * 8UL);
  __CPROVER_assume(dst->data != (double *)0);   /* ASSUMED: allocation succeeds */
  if (src->size > 0) __CPROVER_array_replace(dst->data, src->data);
}
/* minCoeff(): ASSERTED non-empty (Eigen: "you are using an empty matrix").
 * With NaN coefficients Eigen's result depends on the vectorisation, so the contract is given for vectors WITHOUT NaN:
 * the caller announces that hypothesis with the ghost flag dense_g_nonan, and it is CHECKED here point-wise at the
 * arbitrary ghost position dense_g_k (arbitrary => checked for every coefficient).
 * ASSUMED then: the result is one of the coefficients (witness position w) and not greater than any coefficient
 * (instantiated at dense_g_k).  dense_g_minpos is a prophecy of w for the FIRST call in a run (harnesses leave it
 * unconstrained, so it restricts nothing); it lets a caller instantiate its own invariants at the witness. */
long dense_g_k, dense_g_minpos; _Bool dense_g_nonan, dense_g_minpos_used;
static inline double RealVector_minCoeff(RealVector *v)
{
  __CPROVER_assert(v->size > 0, "Eigen minCoeff: the vector is not empty");
  double r = nondet_double();
  if (dense_g_nonan) {
    _Bool k_in = 0 <= dense_g_k && dense_g_k < v->size;
    if (k_in) __CPROVER_assert(v->data[dense_g_k] == v->data[dense_g_k], "minCoeff: the caller's no-NaN hypothesis holds at the ghost position");
    long w = nondet_long();
    __CPROVER_assume(0 <= w && w < v->size && D_SAME(r, v->data[w]));
    if (!dense_g_minpos_used) { __CPROVER_assume(w == dense_g_minpos); dense_g_minpos_used = 1; }
    if (k_in) __CPROVER_assume(D_LE(r, v->data[dense_g_k]));
  }
  return r;
}
/* RealVectorType v(n): n uninitialised coefficients */
static inline RealVector RealVector_ctor1(unsigned long n)
{
  RealVector v;
  __CPROVER_assert(n <= (unsigned long)(DENSE_MAXDIM * DENSE_MAXDIM), "dense model: size representable");
  v.size = (long)n;
  v.data = malloc((size_t)n * 8UL);
  __CPROVER_assume(v.data != (double *)0);   /* ASSUMED: allocation succeeds */
  return v;
}
/* v(i, j) on a column vector: j must be 0 */
static inline double *RealVector_call2(RealVector *v, long i, long j)
{
  __CPROVER_assert(0 <= i && i < v->size && j == 0, "Eigen vector coefficient access (i,0) inside the vector");
  return &v->data[i];
}
static inline double *RealVector_data(RealVector *v) { return v->data; }
/* std::copy(first, last, dst) on doubles.  ASSERTED: [first,last) is a readable range of one object, [dst,dst+n) is
 * writable.  ASSUMED: dst[k] = first[k] for 0 <= k < n -- kept for the ghost offset dense_g_copyk, every other element
 * of the destination range is havocked (over-approximation). */
long dense_g_copyk;
static inline double *dense_copy(const double *first, const double *last, double *dst)
{
  __CPROVER_assert(__CPROVER_same_object(first, last) && first <= last, "std::copy: [first,last) is a range of one object");
  long n = last - first;
  __CPROVER_assert(n == 0 || __CPROVER_r_ok(first, (size_t)n * 8UL), "std::copy: source range readable");
  __CPROVER_assert(n == 0 || __CPROVER_w_ok(dst, (size_t)n * 8UL), "std::copy: destination range writable");
  _Bool has = 0 <= dense_g_copyk && dense_g_copyk < n;
  double gv = has ? first[dense_g_copyk] : 0.0;
  if (n > 0) __CPROVER_havoc_slice(dst, (size_t)n * 8UL);
  if (has) dst[dense_g_copyk] = gv;
  return dst + n;
}
/* ---- diagonal view, isDiagonal(), setIdentity() (vocabulary; not used by the current code) ----------------------------------
 * m.diagonal(): Eigen::Diagonal<MatrixType,0>, a VIEW of m with min(rows, cols) coefficients, coefficient k is m(k,k).
 * .real() on an expression of a real scalar type returns the expression itself (RealReturnType = const Derived&,
 *   Eigen/src/plugins/CommonCwiseUnaryOps.h).
 * vector = view: the vector is resized to the size of the view and coefficient k becomes m(k,k).  Kept for the two ghost positions
 *   eig_g_a / eig_g_b (the arbitrary pair that stubs/eigsolver.h and the contracts about eigenvalue vectors use), which are read BEFORE
 *   the destination is reallocated; every other coefficient of the destination is arbitrary (over-approximation).
 * m.isDiagonal(prec): false for a non-square matrix, otherwise "every off-diagonal coefficient is much smaller than the largest
 *   diagonal coefficient" -- a function of the contents which the model does not evaluate: an ARBITRARY answer (nothing assumed).
 * m.setIdentity(): m(i,j) = (i == j); dimensions and storage unchanged.  Kept for the cells addressed by the ghost pair
 *   ((a,a), (b,b) = 1; (a,b), (b,a) = 0 for a != b); every other coefficient is arbitrary (over-approximation). */
long eig_g_a, eig_g_b;               /* (tentative definition shared with stubs/eigsolver.h) */
typedef struct DiagView { RealMatrix *m; } DiagView;
#define RealMatrix_diagonal(mp) (*(DiagView[1]){ { (mp) } })
#define DiagView_real(v) (v)
static inline long DiagView_size(DiagView *v) { return v->m->rows < v->m->cols ? v->m->rows : v->m->cols; }
static inline void RealVector_assign_diag(RealVector *dst, DiagView *v)
{
  long n = DiagView_size(v);
  _Bool ha = 0 <= eig_g_a && eig_g_a < n, hb = 0 <= eig_g_b && eig_g_b < n;
  double va = ha ? v->m->data[DENSE_IDX(eig_g_a, eig_g_a)] : 0.0, vb = hb ? v->m->data[DENSE_IDX(eig_g_b, eig_g_b)] : 0.0;
  dst->size = n;
  dst->data = malloc((size_t)n * 8UL);           /* fresh storage: arbitrary contents */
  __CPROVER_assume(dst->data != (double *)0);   /* ASSUMED: allocation succeeds */
  if (ha) dst->data[eig_g_a] = va;
  if (hb) dst->data[eig_g_b] = vb;
}
static inline _Bool RealMatrix_isDiagonal(RealMatrix *m) { if (m->rows != m->cols) return 0; return nondet_bool(); }
static inline void RealMatrix_setIdentity(RealMatrix *m)
{
  if (m->rows > 0) __CPROVER_havoc_object(m->data);
  _Bool ha = 0 <= eig_g_a && eig_g_a < m->rows && eig_g_a < m->cols, hb = 0 <= eig_g_b && eig_g_b < m->rows && eig_g_b < m->cols;
  if (ha) m->data[DENSE_IDX(eig_g_a, eig_g_a)] = 1.0;
  if (hb) m->data[DENSE_IDX(eig_g_b, eig_g_b)] = 1.0;
  if (ha && hb && eig_g_a != eig_g_b) { m->data[DENSE_IDX(eig_g_a, eig_g_b)] = 0.0; m->data[DENSE_IDX(eig_g_b, eig_g_a)] = 0.0; }
}
/* MatrixType m(rows, cols): uninitialised coefficients */
static inline RealMatrix RealMatrix_ctor2(unsigned long r, unsigned long c)
{
  RealMatrix m;
  __CPROVER_assert(r <= (unsigned long)DENSE_MAXDIM && c <= (unsigned long)DENSE_MAXDIM, "dense model: dimension within DENSE_MAXDIM");
  m.rows = (long)r; m.cols = (long)c;
  m.data = malloc(DENSE_BYTES(r));
  __CPROVER_assume(m.data != (double *)0);   /* ASSUMED: allocation succeeds */
  return m;
}
#endif
