/* dense.h -- Eigen dense vector / matrix of doubles (dynamic size).
 * ASSERTED: every coefficient access is inside the object (Eigen checks this only without NDEBUG).
 * Storage: vectors contiguous; matrices column-major as in pomerol's typedefs. */
#ifndef VERIF_DENSE_H
#define VERIF_DENSE_H
#include "common.h"
typedef struct RealVector { long size; double *data; } RealVector;
static inline _Bool RealVector_wf(RealVector *v, long maxsize)
{ return v->size >= 0 && v->size <= maxsize && __CPROVER_is_fresh(v->data, v->size * sizeof(double)); }
static inline double *RealVector_call(RealVector *v, long i)
{
  __CPROVER_assert(0 <= i && i < v->size, "Eigen vector coefficient access inside the vector");
  return &v->data[i];
}
#define RealVector_at RealVector_call
static inline long RealVector_size(RealVector *v) { return v->size; }

/* ---- additions for HamiltonianPart / FieldOperatorPart / DensityMatrixPart (pkgC) -------------------------------
 * RealMatrix = Eigen::Matrix<double,Dynamic,Dynamic,RowMajor> (pomerol's MatrixType/RealMatrixType are declared
 * with Eigen::RowMajor in Misc.h): coefficient (i,j) lives at data[i*cols+j].  No obligation depends on the storage
 * order; what matters is that distinct (i,j) inside the matrix are distinct cells.
 * ASSERTED: (i,j) inside the matrix at every coefficient access, col(j)/row(i) inside, resize with non-negative sizes.
 * ASSUMED: resize succeeds (Eigen throws std::bad_alloc otherwise; that exit is not modelled) and leaves the
 *   coefficients unspecified; setZero writes 0.0 to every coefficient; rows()/cols()/size() report the dimensions. */
#define DENSE_MAXDIM (1L << 20)   /* largest dimension for which the model's allocation (8*rows*cols bytes) is representable */
typedef struct RealMatrix { long rows, cols; double *data; } RealMatrix;
static inline _Bool RealMatrix_wf(RealMatrix *m, long maxdim)
{ return m->rows >= 0 && m->rows <= maxdim && m->cols >= 0 && m->cols <= maxdim &&
         __CPROVER_is_fresh(m->data, m->rows * m->cols * sizeof(double)); }
static inline double *RealMatrix_call(RealMatrix *m, long i, long j)
{
  __CPROVER_assert(0 <= i && i < m->rows, "Eigen matrix coefficient access: row inside the matrix");
  __CPROVER_assert(0 <= j && j < m->cols, "Eigen matrix coefficient access: column inside the matrix");
  return &m->data[i * m->cols + j];
}
static inline long RealMatrix_rows(RealMatrix *m) { return m->rows; }
static inline long RealMatrix_cols(RealMatrix *m) { return m->cols; }
void *malloc(size_t);
static inline void RealMatrix_resize(RealMatrix *m, long r, long c)
{
  __CPROVER_assert(r >= 0 && c >= 0, "Eigen resize: non-negative dimensions");
  __CPROVER_assert(r <= DENSE_MAXDIM && c <= DENSE_MAXDIM, "dense model: dimension within DENSE_MAXDIM");
  m->rows = r; m->cols = c;
  m->data = malloc((size_t)r * (size_t)c * sizeof(double));
  __CPROVER_assume(m->data != (double *)0);   /* ASSUMED: allocation succeeds */
}
static inline void RealMatrix_setZero(RealMatrix *m)
{ if (m->rows > 0 && m->cols > 0) __CPROVER_array_set(m->data, 0.0); }
static inline void RealVector_resize(RealVector *v, long n)
{
  __CPROVER_assert(n >= 0, "Eigen resize: non-negative size");
  __CPROVER_assert(n <= DENSE_MAXDIM * DENSE_MAXDIM, "dense model: size representable");
  v->size = n;
  v->data = malloc((size_t)n * sizeof(double));
  __CPROVER_assume(v->data != (double *)0);   /* ASSUMED: allocation succeeds */
}
/* `v << x;` (CommaInitializer with ONE value): Eigen asserts on destruction of the initializer that the whole
 * object was filled, i.e. size()==1.  ASSERTED. */
static inline void RealVector_shl(RealVector *v, const double *x)
{
  __CPROVER_assert(v->size == 1, "Eigen comma initializer with one value: the vector has exactly one coefficient");
  v->data[0] = *x;
}
#endif
