/* dense.h -- Eigen dense vector / matrix of doubles (dynamic size).
 * ASSERTED: every coefficient access is inside the object (Eigen checks this only without NDEBUG).
 * Storage: vectors contiguous; matrices column-major as in pomerol's typedefs. */
#ifndef VERIF_DENSE_H
#define VERIF_DENSE_H
#include "common.h"
typedef struct RealVector { long size; double *data; } RealVector;
static inline _Bool RealVector_wf(RealVector *v, long maxsize)
{ return v->size >= 0 && v->size <= maxsize && __CPROVER_is_fresh(v->data, v->size * sizeof(double)); }
static inline double *RealVector_call(RealVector *v, long i)
{
  __CPROVER_assert(0 <= i && i < v->size, "Eigen vector coefficient access inside the vector");
  return &v->data[i];
}
#define RealVector_at RealVector_call
static inline long RealVector_size(RealVector *v) { return v->size; }
#endif
