/* sparse.h -- Eigen::SparseMatrix<double,{Row,Col}Major,int> in compressed form, and its
 * InnerIterator (Eigen 3.4 SparseCompressedBase.h, mirrored line by line; `./check --selftest`
 * greps the installed header for these lines).
 *
 *   InnerIterator(mat, outer): m_id = outerIndexPtr()[outer]; m_end = outerIndexPtr()[outer+1];
 *   operator++ : m_id++          value(): m_values[m_id]       index(): m_indices[m_id]
 *   operator bool: m_id < m_end
 *
 * ASSERTED (obligations on pomerol): every read of m_values/m_indices is inside the arrays, which
 *   are allocated TIGHTLY (nnz elements): reading element nnz is out of bounds.
 * ASSUMED (type invariant of a compressed matrix, instantiated point-wise against ONE ghost
 *   position gpos per matrix, which is arbitrary, hence equivalent to the quantified statement):
 *   0 <= inner[k] < innerSize;  inside one outer vector inner[] is strictly increasing.
 */
#ifndef VERIF_SPARSE_H
#define VERIF_SPARSE_H
#include "common.h"
#define SP_MAX 1000000L
typedef struct SparseM {
  long outerSize, innerSize, nnz;
  int *outer;       /* outerSize+1 entries */
  int *inner;       /* nnz entries */
  double *values;   /* nnz entries */
  /* ghost */
  long gpos;        /* arbitrary position in [0,nnz) (or -1), fixed by the harness */
  long gouter;      /* the outer vector that contains gpos */
  long last_value_pos, last_value_outer;  /* position/outer of the most recent value() read */
} SparseM;
typedef SparseM SparseRM;   /* RowMajor: outer = row, inner = column */
typedef SparseM SparseCM;   /* ColMajor: outer = column, inner = row */
typedef struct SpIt { SparseM *m; long m_outer, m_id, m_end; } SpIt;
typedef SpIt SpItR;
typedef SpIt SpItC;

/* type invariant usable in requires clauses */
static inline _Bool SparseM_wf(SparseM *m)
{
  return m->outerSize >= 0 && m->outerSize <= SP_MAX && m->innerSize >= 0 && m->innerSize <= SP_MAX &&
         m->nnz >= 0 && m->nnz <= SP_MAX &&
         __CPROVER_is_fresh(m->outer, (m->outerSize + 1) * sizeof(int)) &&
         __CPROVER_is_fresh(m->inner, m->nnz * sizeof(int)) &&
         __CPROVER_is_fresh(m->values, m->nnz * sizeof(double)) &&
         m->outer[0] == 0 && m->outer[m->outerSize] == m->nnz &&
         (m->gpos == -1 || (0 <= m->gpos && m->gpos < m->nnz && 0 <= m->gouter && m->gouter < m->outerSize &&
                            m->outer[m->gouter] <= m->gpos && m->gpos < m->outer[m->gouter + 1]));
}
static inline long SparseM_outerSize(SparseM *m) { return m->outerSize; }
static inline long SparseM_innerSize(SparseM *m) { return m->innerSize; }
static inline long SparseM_nonZeros(SparseM *m) { return m->nnz; }

static inline SpIt SpIt_ctor2(SparseM *m, long outer)
{
  SpIt it;
  __CPROVER_assert(0 <= outer && outer < m->outerSize, "InnerIterator: outer index inside the matrix");
  it.m = m; it.m_outer = outer;
  it.m_id = m->outer[outer]; it.m_end = m->outer[outer + 1];
  /* ASSUMED: compressed form, 0 <= outer[k] <= outer[k+1] <= nnz */
  __CPROVER_assume(0 <= it.m_id && it.m_id <= it.m_end && it.m_end <= m->nnz);
  /* ASSUMED: outer[] is monotone, point-wise against the ghost outer vector */
  if (m->gpos >= 0) {
    if (outer < m->gouter) __CPROVER_assume(it.m_end <= m->outer[m->gouter]);
    if (outer > m->gouter) __CPROVER_assume(it.m_id >= m->outer[m->gouter + 1]);
  }
  return it;
}
static inline _Bool SpIt_conv_bool(SpIt *it) { return it->m_id < it->m_end; }
static inline SpIt *SpIt_inc(SpIt *it) { it->m_id++; return it; }
static inline int SpIt_index(SpIt *it)
{
  SparseM *m = it->m;
  __CPROVER_assert(0 <= it->m_id && it->m_id < m->nnz, "InnerIterator::index(): read inside the index array");
  int r = m->inner[it->m_id];
  __CPROVER_assume(0 <= r && r < m->innerSize);
  if (m->gpos >= 0 && it->m_outer == m->gouter && it->m_id < it->m_end) {
    int g = m->inner[m->gpos];
    __CPROVER_assume(0 <= g && g < m->innerSize);
    if (it->m_id < m->gpos) __CPROVER_assume(r < g);
    if (it->m_id > m->gpos) __CPROVER_assume(r > g);
  }
  return r;
}
static inline double SpIt_value(SpIt *it)
{
  SparseM *m = it->m;
  __CPROVER_assert(0 <= it->m_id && it->m_id < m->nnz, "InnerIterator::value(): read inside the value array");
  m->last_value_pos = it->m_id; m->last_value_outer = it->m_outer;
  return m->values[it->m_id];
}
#define SpItR_ctor2 SpIt_ctor2
#define SpItC_ctor2 SpIt_ctor2
#define SpItR_conv_bool SpIt_conv_bool
#define SpItC_conv_bool SpIt_conv_bool
#define SpItR_inc SpIt_inc
#define SpItC_inc SpIt_inc
#define SpItR_index SpIt_index
#define SpItC_index SpIt_index
#define SpItR_value SpIt_value
#define SpItC_value SpIt_value
#define SparseRM_outerSize SparseM_outerSize
#define SparseCM_outerSize SparseM_outerSize
#endif
