/* sparse.h -- Eigen::SparseMatrix<double,{Row,Col}Major,int> in compressed form, and its
 * InnerIterator (Eigen 3.4 SparseCompressedBase.h, mirrored line by line; `./check --selftest`
 * greps the installed header for these lines).
 *
 *   InnerIterator(mat, outer): m_id = outerIndexPtr()[outer]; m_end = outerIndexPtr()[outer+1];
 *   operator++ : m_id++          value(): m_values[m_id]       index(): m_indices[m_id]
 *   operator bool: m_id < m_end
 *
 * ASSERTED (obligations on pomerol): every read of m_values/m_indices is inside the arrays, which
 *   are allocated TIGHTLY (nnz elements): reading element nnz is out of bounds.
 * ASSUMED (type invariant of a compressed matrix, instantiated point-wise against ONE ghost
 *   position gpos per matrix, which is arbitrary, hence equivalent to the quantified statement):
 *   0 <= inner[k] < innerSize;  inside one outer vector inner[] is strictly increasing.
 */
#ifndef VERIF_SPARSE_H
#define VERIF_SPARSE_H
#include "common.h"
#define SP_MAX 1000000L
typedef struct SparseM {
  long outerSize, innerSize, nnz;
  int *outer;       /* outerSize+1 entries */
  int *inner;       /* nnz entries */
  double *values;   /* nnz entries */
  /* ghost */
  long gpos;        /* arbitrary position in [0,nnz) (or -1), fixed by the harness */
  long gouter;      /* the outer vector that contains gpos */
  long last_value_pos, last_value_outer;  /* position/outer of the most recent value() read */
  long last_index_pos;                    /* position of the most recent index() read */
  long last_ctor_outer;                   /* outer index of the most recent InnerIterator construction */
  long last_coeff_outer, last_coeff_inner;/* arguments of the most recent coeff() lookup */
} SparseM;
typedef SparseM SparseRM;   /* RowMajor: outer = row, inner = column */
typedef SparseM SparseCM;   /* ColMajor: outer = column, inner = row */
typedef struct SpIt { SparseM *m; long m_outer, m_id, m_end; } SpIt;
typedef SpIt SpItR;
typedef SpIt SpItC;

/* type invariant usable in requires clauses */
static inline _Bool SparseM_wf(SparseM *m)
{
  return m->outerSize >= 0 && m->outerSize <= SP_MAX && m->innerSize >= 0 && m->innerSize <= SP_MAX &&
         m->nnz >= 0 && m->nnz <= SP_MAX &&
         __CPROVER_is_fresh(m->outer, (m->outerSize + 1) * sizeof(int)) &&
         __CPROVER_is_fresh(m->inner, m->nnz * sizeof(int)) &&
         __CPROVER_is_fresh(m->values, m->nnz * sizeof(double)) &&
         m->outer[0] == 0 && m->outer[m->outerSize] == m->nnz &&
         (m->gpos == -1 || (0 <= m->gpos && m->gpos < m->nnz && 0 <= m->gouter && m->gouter < m->outerSize &&
                            m->outer[m->gouter] <= m->gpos && m->gpos < m->outer[m->gouter + 1] &&
                            0 <= m->inner[m->gpos] && m->inner[m->gpos] < m->innerSize));
}
static inline long SparseM_outerSize(SparseM *m) { return m->outerSize; }
static inline long SparseM_innerSize(SparseM *m) { return m->innerSize; }
static inline long SparseM_nonZeros(SparseM *m) { return m->nnz; }

/* optional ghost recording (a spec file defines SPARSE_GHOSTS before including this header to enable it;
 * the recorded fields must then appear in the assigns clauses) */
#ifdef SPARSE_GHOSTS
#define SPARSE_GHOST_CTOR(m, o) ((m)->last_ctor_outer = (o))
#define SPARSE_GHOST_INDEX(it) ((it)->m->last_index_pos = (it)->m_id)
#else
#define SPARSE_GHOST_CTOR(m, o) ((void)0)
#define SPARSE_GHOST_INDEX(it) ((void)0)
#endif
/* iterator operations are macros on purpose: `(&Cinner)->m_id++` is an assignment to a local
 * variable for CBMC, whereas a function taking `SpIt *` turns every step into a pointer write
 * that the contract instrumentation must check against the write set. */
#define SpIt_ctor2(mat, outer_) ({ \
  SparseM *_m = (mat); long _o = (outer_); SpIt _it; \
  __CPROVER_assert(0 <= _o && _o < _m->outerSize, "InnerIterator: outer index inside the matrix"); \
  _it.m = _m; _it.m_outer = _o; _it.m_id = _m->outer[_o]; _it.m_end = _m->outer[_o + 1]; SPARSE_GHOST_CTOR(_m, _o); \
  /* ASSUMED: compressed form, 0 <= outer[k] <= outer[k+1] <= nnz */ \
  __CPROVER_assume(0 <= _it.m_id && _it.m_id <= _it.m_end && _it.m_end <= _m->nnz); \
  /* ASSUMED: outer[] is monotone, point-wise against the ghost outer vector */ \
  if (_m->gpos >= 0) { \
    if (_o < _m->gouter) __CPROVER_assume(_it.m_end <= _m->outer[_m->gouter]); \
    if (_o > _m->gouter) __CPROVER_assume(_it.m_id >= _m->outer[_m->gouter + 1]); \
  } \
  _it; })
#define SpIt_conv_bool(it) ((it)->m_id < (it)->m_end)
#define SpIt_inc(it) ((it)->m_id++, (it))
#define SpIt_index(it) ({ \
  __CPROVER_assert(0 <= (it)->m_id && (it)->m_id < (it)->m->nnz, "InnerIterator::index(): read inside the index array"); \
  int _r = (it)->m->inner[(it)->m_id]; SPARSE_GHOST_INDEX(it); \
  __CPROVER_assume(0 <= _r && _r < (it)->m->innerSize); \
  if ((it)->m->gpos >= 0 && (it)->m_outer == (it)->m->gouter && (it)->m_id < (it)->m_end) { \
    int _g = (it)->m->inner[(it)->m->gpos]; \
    __CPROVER_assume(0 <= _g && _g < (it)->m->innerSize); \
    if ((it)->m_id < (it)->m->gpos) __CPROVER_assume(_r < _g); \
    if ((it)->m_id > (it)->m->gpos) __CPROVER_assume(_r > _g); \
  } \
  _r; })
#define SpIt_value(it) ({ \
  __CPROVER_assert(0 <= (it)->m_id && (it)->m_id < (it)->m->nnz, "InnerIterator::value(): read inside the value array"); \
  (it)->m->last_value_pos = (it)->m_id; (it)->m->last_value_outer = (it)->m_outer; \
  &(it)->m->values[(it)->m_id]; })
#define SpItR_ctor2 SpIt_ctor2
#define SpItC_ctor2 SpIt_ctor2
#define SpItR_conv_bool SpIt_conv_bool
#define SpItC_conv_bool SpIt_conv_bool
#define SpItR_inc SpIt_inc
#define SpItC_inc SpIt_inc
#define SpItR_index SpIt_index
#define SpItC_index SpIt_index
#define SpItR_value SpIt_value
#define SpItC_value SpIt_value
#define SparseRM_outerSize SparseM_outerSize
#define SparseCM_outerSize SparseM_outerSize
/* twins for the other spelling of an increment (`++it` for `it++` and vice versa): same effect.  X_inc yields the iterator after the step
 * (exact); X_postinc made from X_inc is void, so a use of its value does not compile (UNDECIDED) instead of being modelled wrongly */
#define SpIt_postinc(it_) ((void)SpIt_inc(it_))
#endif
