/* cplx.h -- std::complex<double> as a pair; operators follow the textbook formulas (TRUSTED:
 * libstdc++'s operators compute these expressions, possibly through __muldc3/__divdc3 which
 * differ only in the treatment of NaN/inf recovery). */
#ifndef VERIF_CPLX_H
#define VERIF_CPLX_H
#include "common.h"
typedef struct { double re, im; } cplx;
static inline cplx cplx_ctor0(void) { cplx c = {0.0, 0.0}; return c; }
static inline cplx cplx_ctor1(double re) { cplx c = {re, 0.0}; return c; }
static inline cplx cplx_ctor2(double re, double im) { cplx c = {re, im}; return c; }
static inline double cplx_real(const cplx *c) { return c->re; }
static inline double cplx_imag(const cplx *c) { return c->im; }
static inline cplx op_add_cplx_cplx(cplx a, cplx b) { cplx c = {D_ADD(a.re, b.re), D_ADD(a.im, b.im)}; return c; }
static inline cplx op_sub_cplx_cplx(cplx a, cplx b) { cplx c = {D_SUB(a.re, b.re), D_SUB(a.im, b.im)}; return c; }
static inline cplx op_sub_cplx_double(cplx a, double b) { cplx c = {D_SUB(a.re, b), a.im}; return c; }
static inline cplx op_add_cplx_double(cplx a, double b) { cplx c = {D_ADD(a.re, b), a.im}; return c; }
static inline cplx op_sub_double_cplx(double a, cplx b) { cplx c = {D_SUB(a, b.re), D_NEG(b.im)}; return c; }
static inline cplx op_add_double_cplx(double a, cplx b) { cplx c = {D_ADD(a, b.re), b.im}; return c; }
static inline cplx op_sub_cplx(cplx a) { cplx c = {D_NEG(a.re), D_NEG(a.im)}; return c; }
static inline cplx op_mul_cplx_cplx(cplx a, cplx b)
{ cplx c = {D_SUB(D_MUL(a.re, b.re), D_MUL(a.im, b.im)), D_ADD(D_MUL(a.re, b.im), D_MUL(a.im, b.re))}; return c; }
static inline cplx op_mul_cplx_double(cplx a, double b) { cplx c = {D_MUL(a.re, b), D_MUL(a.im, b)}; return c; }
static inline cplx op_mul_double_cplx(double a, cplx b) { cplx c = {D_MUL(a, b.re), D_MUL(a, b.im)}; return c; }
static inline cplx op_div_cplx_double(cplx a, double b) { cplx c = {D_DIV(a.re, b), D_DIV(a.im, b)}; return c; }
static inline cplx op_div_cplx_cplx(cplx a, cplx b)
{ double d = D_ADD(D_MUL(b.re, b.re), D_MUL(b.im, b.im));
  cplx c = {D_DIV(D_ADD(D_MUL(a.re, b.re), D_MUL(a.im, b.im)), d), D_DIV(D_SUB(D_MUL(a.im, b.re), D_MUL(a.re, b.im)), d)}; return c; }
static inline cplx op_div_double_cplx(double a, cplx b) { return op_div_cplx_cplx(cplx_ctor1(a), b); }
static inline cplx *cplx_addassign(cplx *a, cplx b) { a->re = D_ADD(a->re, b.re); a->im = D_ADD(a->im, b.im); return a; }
static inline cplx *cplx_subassign(cplx *a, cplx b) { a->re = D_SUB(a->re, b.re); a->im = D_SUB(a->im, b.im); return a; }
static inline cplx *cplx_mulassign_c(cplx *a, cplx b) { *a = op_mul_cplx_cplx(*a, b); return a; }
static inline cplx *cplx_mulassign_d(cplx *a, double b) { *a = op_mul_cplx_double(*a, b); return a; }
#define cplx_mulassign(a, b) _Generic((b), cplx: cplx_mulassign_c, default: cplx_mulassign_d)((a), (b))
static inline cplx *cplx_assign(cplx *a, cplx b) { *a = b; return a; }
static inline _Bool op_eq_cplx_cplx(cplx a, cplx b) { return D_EQ(a.re, b.re) && D_EQ(a.im, b.im); }
#define C_SAME(a, b) (D_SAME((a).re, (b).re) && D_SAME((a).im, (b).im))
/* |z|: opaque (TRUSTED contract of std::abs(std::complex): a function of the value) */
double __CPROVER_uninterpreted_cabs(double, double);
#ifdef VERIF_FP_IEEE
static inline double c_abs(cplx z)
{
  if (z.im == 0.0) return z.re < 0 ? -z.re : z.re;
  double r = __CPROVER_uninterpreted_cabs(z.re, z.im);
  __CPROVER_assume(r >= 0.0 || r != r);
  return r;
}
static inline double d_abs(double x) { return x < 0 ? -x : x; }
#else
static inline double d_abs(double x) { return d_frombits(d_bits(x) & ~D_SIGN); }
/* |z| depends only on |re| and |im| (hypot) */
static inline double c_abs(cplx z) { return __CPROVER_uninterpreted_cabs(d_abs(z.re), d_abs(z.im)); }
#endif
/* ---- <complex> free functions on a complex argument (default names of tools/ast2c.py when the spec has no //@free rule):
 *   std::real / std::imag  = the two parts;  std::conj(z) = (re, -im);
 *   std::norm(z) = re*re + im*im  (libstdc++ <complex> _Norm_helper: exactly this expression, also for floating types);
 *   std::abs(z)  = c_abs above;   std::arg(z) = atan2(im, re): opaque (TRUSTED: a function of the value; nothing else is known). */
static inline double c_real(cplx z) { return z.re; }
static inline double c_imag(cplx z) { return z.im; }
static inline cplx c_conj(cplx z) { cplx c = {z.re, D_NEG(z.im)}; return c; }
static inline double c_norm(cplx z) { return D_ADD(D_MUL(z.re, z.re), D_MUL(z.im, z.im)); }
double __CPROVER_uninterpreted_carg(double, double);
static inline double c_arg(cplx z) { return __CPROVER_uninterpreted_carg(z.re, z.im); }
#endif
