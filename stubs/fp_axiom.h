/* fp_axiom.h -- optional third arithmetic mode, on top of -DVERIF_FP_IEEE:  -DVERIF_FP_IEEE -DVERIF_FP_AXIOM
 *
 * Include it between common.h and cplx.h.  '+', '-', unary '-', and all comparisons stay bit-precise
 * IEEE-754 (CBMC's float encoding); '*' and '/' on doubles -- whose 53x53-bit multiplier / divider
 * circuits make magnitude reasoning infeasible for the SAT back end (measured: Term::operator()(tau,beta)
 * undecided after 600 s) -- become uninterpreted functions constrained by the following facts of IEEE-754
 * binary64 arithmetic in round-to-nearest (the only mode pomerol runs in).
 *
 * ASSUMED for r = a*b with a, b not NaN and not 0*inf (infinite operands are allowed here: E - E0 may overflow):
 *   M1  r is not NaN                                     (NaN arises only from 0*inf or a NaN operand)
 *   M2  sign rule: equal signs ==> r >= 0, opposite signs ==> r <= 0   (+-0 counts for both; r may be +-inf)
 * ASSUMED for r = a*b with a, b finite:
 *   M3  |b| <= 1 ==> |r| <= |a|     (the exact product is <= |a|, |a| is representable, rounding is monotone; only for the
 *       SECOND factor -- write the small factor on the right; the mirrored fact is not needed and not assumed)
 * ASSUMED for r = a/b with a, b finite and b != 0:
 *   D1  r is not NaN
 *   D2  sign rule as for the product
 *   D3  |b| >= 1 ==> |r| <= |a|                           (same argument as M3)
 * Nothing is assumed when an operand is NaN, for 0*inf, for a quotient with an infinite operand, or for a division by zero.
 * Every one of these facts is PROVED against CBMC's bit-precise '*' and '/' by a lemma harness in specs/gfterm.c
 * (h_lemma_fmul_sign, h_lemma_fdiv_sign: < 1 s;  h_lemma_fmul_mag, h_lemma_fdiv_mag: about 3 min each),
 * so a harness built with -DVERIF_FP_AXIOM relies on CBMC's float model only, in two steps (lemma + use).
 * They are nevertheless written as __CPROVER_assume below: if a lemma harness is not `pass`, the fact is an assumption.
 *
 * Optional hook: define FA_DIV_HOOK(a,b) before including this file to observe the operands of each division.
 */
#ifndef VERIF_FP_AXIOM_H
#define VERIF_FP_AXIOM_H
#if !defined(VERIF_FP_IEEE)
#error "fp_axiom.h needs -DVERIF_FP_IEEE"
#endif
#ifndef FA_DIV_HOOK
#define FA_DIV_HOOK(a, b) ((void)0)
#endif
double __CPROVER_uninterpreted_fmul(double, double);
double __CPROVER_uninterpreted_fdiv(double, double);
static inline double fa_abs(double x) { return x < 0.0 ? -x : x; }
/* the facts, as predicates of (a, b, r): used by the assumptions below and by the lemma harnesses */
static inline _Bool fa_isinf(double x) { return x == x && x - x != 0.0; }
static inline _Bool fa_mul_sign_ok(double a, double b, double r)
{
  /* defined product: no NaN operand and not 0 * inf */
  if (!(a == a && b == b) || (a == 0.0 && fa_isinf(b)) || (fa_isinf(a) && b == 0.0)) return 1;
  return r == r                                                                     /* M1 */
      && (!((a >= 0.0 && b >= 0.0) || (a <= 0.0 && b <= 0.0)) || r >= 0.0)         /* M2 */
      && (!((a >= 0.0 && b <= 0.0) || (a <= 0.0 && b >= 0.0)) || r <= 0.0);
}
static inline _Bool fa_mul_mag_ok(double a, double b, double r)
{
  if (!(d_finite(a) && d_finite(b))) return 1;
  return !(fa_abs(b) <= 1.0) || fa_abs(r) <= fa_abs(a);                             /* M3 */
}
static inline _Bool fa_div_sign_ok(double a, double b, double r)
{
  if (!(d_finite(a) && d_finite(b) && b != 0.0)) return 1;
  return r == r                                                                     /* D1 */
      && (!((a >= 0.0 && b > 0.0) || (a <= 0.0 && b < 0.0)) || r >= 0.0)           /* D2 */
      && (!((a >= 0.0 && b < 0.0) || (a <= 0.0 && b > 0.0)) || r <= 0.0);
}
static inline _Bool fa_div_mag_ok(double a, double b, double r)
{
  if (!(d_finite(a) && d_finite(b) && b != 0.0)) return 1;
  return !(fa_abs(b) >= 1.0) || fa_abs(r) <= fa_abs(a);                             /* D3 */
}
static inline double d_mul_ax(double a, double b)
{
  double r = __CPROVER_uninterpreted_fmul(a, b);
  __CPROVER_assume(fa_mul_sign_ok(a, b, r));   /* ASSUMED M1, M2 (proved: h_lemma_fmul_sign) */
  __CPROVER_assume(fa_mul_mag_ok(a, b, r));    /* ASSUMED M3 (proved: h_lemma_fmul_mag) */
  return r;
}
static inline double d_div_ax(double a, double b)
{
  FA_DIV_HOOK(a, b);
  double r = __CPROVER_uninterpreted_fdiv(a, b);
  __CPROVER_assume(fa_div_sign_ok(a, b, r));   /* ASSUMED D1, D2 (proved: h_lemma_fdiv_sign) */
  __CPROVER_assume(fa_div_mag_ok(a, b, r));    /* ASSUMED D3 (proved: h_lemma_fdiv_mag) */
  return r;
}
/* the machine operations themselves (for the lemma harnesses) */
static inline double fa_native_mul(double a, double b) { return a * b; }
static inline double fa_native_div(double a, double b) { return a / b; }
#undef D_MUL
#undef D_DIV
#define D_MUL(a, b) d_mul_ax((a), (b))
#define D_DIV(a, b) d_div_ax((a), (b))
#endif
