/* fprange.h -- contract models of the IEEE-754 product / quotient and of libm's exp, for SIGN / RANGE harnesses
 * (built with defs=-DVERIF_FP_IEEE; without that flag this header defines nothing).            owner: pkgB1
 *
 * Why: in IEEE mode CBMC is bit-precise for + - < unary-minus, but a product or quotient of two symbolic doubles is beyond
 * the SAT back end.  A range harness needs only the sign and a lower bound of the magnitude of such products, so this header
 * REPLACES D_MUL / D_DIV by the contract functions below.  Include it after common.h and BEFORE cplx.h (whose complex
 * operators are written with D_MUL / D_DIV).
 *
 * ASSERTED (obligations on pomerol):
 *   div_c : the denominator is a number (not NaN) different from 0
 *   exp_c : the argument is a number <= 0 (so exp cannot overflow)
 * ASSUMED (trusted):
 *   (M1) IEEE-754 product of two FINITE numbers: not NaN; sign(a*b) = sign(a)*sign(b); a zero factor gives +-0
 *   (M2) monotonicity of the correctly rounded product:  |a| >= 1e-8 and |b| >= 1e-7 (either way round)  =>  |a*b| >= 9e-16
 *        (fl(1e-8*1e-7) = 1e-15 up to 3 ulp)
 *   (E1) libm exp, error below 1 ulp: exp(x) >= 0 and not NaN;  x <= 0 => exp(x) <= 1;  x <= -9e-16 => exp(x) < 1
 *        (exp(-9e-16) = 1 - 9e-16 + ..., eight representable numbers below 1)
 *   The value of a quotient is NOT modelled (nondeterministic): a range harness must not depend on it.
 */
#ifndef VERIF_FPRANGE_H
#define VERIF_FPRANGE_H
#include "common.h"
#ifdef VERIF_FP_IEEE
#undef D_MUL
#undef D_DIV
#define D_MUL(a, b) mul_c((a), (b))
#define D_DIV(a, b) div_c((a), (b))
static inline double abs_c(double x) { return x < 0 ? -x : x; }
static inline double mul_c(double a, double b)
{
  double r = nondet_double();
  if (d_finite(a) && d_finite(b)) {
    /* ASSUMED (M1) */
    __CPROVER_assume(r == r);
    if ((a >= 0 && b >= 0) || (a <= 0 && b <= 0)) __CPROVER_assume(r >= 0);
    if ((a >= 0 && b <= 0) || (a <= 0 && b >= 0)) __CPROVER_assume(r <= 0);
    /* ASSUMED (M2) */
    if ((abs_c(a) >= 1e-8 && abs_c(b) >= 1e-7) || (abs_c(a) >= 1e-7 && abs_c(b) >= 1e-8)) __CPROVER_assume(abs_c(r) >= 9e-16);
  }
  return r;
}
static inline double div_c(double a, double b)
{
  __CPROVER_assert(b == b && b != 0.0, "floating-point division: the denominator is a number different from 0");
  REACH("div");
  return nondet_double();
}
static inline double exp_c(double x)
{
  __CPROVER_assert(x == x && x <= 0.0, "exp: the exponent is a number <= 0");
  double r = nondet_double();
  /* ASSUMED (E1) */
  __CPROVER_assume(r >= 0.0);
  if (x <= 0.0) __CPROVER_assume(r <= 1.0);
  if (x <= -9e-16) __CPROVER_assume(r < 1.0);
  return r;
}
#endif
#endif
