/* sitemap.h -- Lattice::SiteMap = std::map<std::string, Lattice::Site*> (DESIGN 3.2: std::map).
 * Include AFTER `struct Lattice_Site` is defined (//@struct Pomerol::Lattice::Site) and after strlabel.h.
 *
 * MODEL: the entries in iteration order, k in [0,n):
 *     SM_site[k]   the Site object the mapped pointer of entry k refers to; its Label is the key of the entry
 *                  (Lattice::addSite stores a site under its own label), keys strictly increasing in k
 *                  (std::map iterates in key order; keys are unique)
 *   SM_site and the ghost arrays are unbounded GLOBAL arrays (one lattice per harness, n <= SM_NMAX): typed
 *   arrays read at a symbolic index are cheap for CBMC (array theory); separately allocated objects of symbolic
 *   size and arrays of constant size are not.  `extern` without definition = arbitrary content.
 *   Dereferencing an iterator yields a pair held INSIDE the iterator object (a local variable of the caller):
 *   pair.first = SM_site[k].Label, pair.second = &cur, cur = copy of SM_site[k] (CBMC cannot bound-check pointers
 *   into an unbounded array); operator[] through a temporary copy.  Exact for code that does not keep the Site
 *   reference beyond the iterator's lifetime and does not compare Site addresses; the Site of the ghost entry
 *   is the stable object SM_gsite, so "returns THE site stored under the label" can be stated for the ghost key.
 *   GHOST data:
 *     glabel / gk   ONE ghost key: gk = its position or -1 if the map has no such key;
 *     SM_suf[0..n], SM_sq0..3[0..n]   suffix sums over the sites (spec functions from the property statement C18):
 *                     suf[k] = SUM_{j>=k} orb[j]*spin[j]       sqZ[k] = SUM_{j>=k, spin[j] > Z} orb[j]
 * ASSERTED (obligations on pomerol): an iterator is dereferenced only before end(); operator[] is used
 *   only with existing keys (otherwise it would insert a null Site*).
 * ASSUMED (type invariant of the map + DEFINITION of the ghost sums, instantiated point-wise at the
 *   position that is dereferenced, against the one ghost key, which is arbitrary):
 *   A2  key order: label[k] < label[gk] for k < gk, > for k > gk; label[k] != glabel if gk == -1
 *   A3  find(l)/operator[](l) answer with THE position of l (a function of the key: uninterpreted
 *       SITEPOS, = n if absent); SITEPOS(glabel) is gk (or n); SITEPOS(label[k]) = k
 *   A4  (only if m->sums) suf[k] = suf[k+1] + orb[k]*spin[k], sqZ[k] = sqZ[k+1] + (spin[k] > Z ? orb[k] : 0)
 *       (definition of the sums), all sums <= SM_TOTAL_MAX
 *   A5  (only if m->smax_on) spin[k] <= SM_SMAX   (domain restriction of that harness)
 * NOTE for editors: index expressions are written with (it)->pos itself, never through a temporary (CBMC's array
 *   theory adds constraints for every pair of syntactically different index expressions of an array), and the
 *   macros avoid address-taken temporaries and writes through pointers (each costs a write-set check per
 *   enclosing loop contract).
 */
#ifndef VERIF_SITEMAP_H
#define VERIF_SITEMAP_H
#include "common.h"
#include "strlabel.h"
#define SM_SMAX 4   /* the explicit sums below are written for 4 */
#define SM_TOTAL_MAX 65536UL
#define SM_NMAX 65536L
#define SM_CAP __CPROVER_constant_infinity_uint
extern struct Lattice_Site SM_site[SM_CAP];
extern struct Lattice_Site SM_gsite;     /* THE Site object of the ghost entry gk (stable address): content of SM_site[gk] */
extern unsigned long SM_suf[SM_CAP], SM_sq0[SM_CAP], SM_sq1[SM_CAP], SM_sq2[SM_CAP], SM_sq3[SM_CAP];
#define SM_label(k) (SM_site[k].Label)
#define SM_orb(k) (SM_site[k].OrbitalSize)
#define SM_spin(k) (SM_site[k].SpinSize)
typedef struct SitePair { label_t first; struct Lattice_Site *second; } SitePair;
typedef struct SiteMap {
  long n;
  label_t glabel; long gk;
  _Bool sums;                                       /* the harness uses the ghost sums (A4) */
  _Bool smax_on;
} SiteMap;
typedef struct SiteMapIt { SiteMap *m; long pos; SitePair pair; struct Lattice_Site cur; } SiteMapIt;
long __CPROVER_uninterpreted_sitepos(label_t);
#define SITEPOS(l) __CPROVER_uninterpreted_sitepos(l)

/* type invariant for functions that only look up / iterate sites (no sums) */
static inline _Bool SiteMap_wf_nosums(SiteMap *m)
{
  return 0 <= m->n && m->n <= SM_NMAX && !m->sums &&
         -1 <= m->gk && m->gk < m->n &&
         SITEPOS(m->glabel) == (m->gk >= 0 ? m->gk : m->n) &&
         (m->gk >= 0 ==> (SM_label(m->gk) == m->glabel && SM_gsite.Label == m->glabel &&
                          SM_gsite.OrbitalSize == SM_orb(m->gk) && SM_gsite.SpinSize == SM_spin(m->gk)));
}
/* type invariant with the ghost sums (without the lemma L1 below) */
static inline _Bool SiteMap_wf_base(SiteMap *m)
{
  return 0 <= m->n && m->n <= SM_NMAX && m->sums &&
         SM_suf[m->n] == 0 && SM_suf[0] <= SM_TOTAL_MAX &&
#ifndef SM_NO_SQ
         SM_sq0[m->n] == 0 && SM_sq1[m->n] == 0 && SM_sq2[m->n] == 0 && SM_sq3[m->n] == 0 &&
#endif
         -1 <= m->gk && m->gk < m->n &&
         SITEPOS(m->glabel) == (m->gk >= 0 ? m->gk : m->n) &&
         (m->gk >= 0 ==> (SM_label(m->gk) == m->glabel && SM_gsite.Label == m->glabel &&
                          SM_gsite.OrbitalSize == SM_orb(m->gk) && SM_gsite.SpinSize == SM_spin(m->gk)));
}
#define SM_SQSUM(k) (SM_sq0[k] + SM_sq1[k] + SM_sq2[k] + SM_sq3[k])
/* LEMMA L1 (consequence of the definitions A4 under A5; proved by induction over k in harness
 * h_lemma_sitemap_sqsum of specs/indexclass.c, function SiteMap_lemma_sqsum at the end of this file):
 *   spin[k] <= 4 for all k  ==>  sq0[0]+sq1[0]+sq2[0]+sq3[0] == suf[0]     (SUM_k orb*spin counted layer by layer) */
static inline _Bool SiteMap_wf(SiteMap *m)
{
#ifdef SM_NO_SQ
  return SiteMap_wf_base(m);
#else
  return SiteMap_wf_base(m) && (m->smax_on ==> SM_SQSUM(0) == SM_suf[0]);
#endif
}
#define SM_SQ(z, k) ((z) == 0 ? SM_sq0[k] : (z) == 1 ? SM_sq1[k] : (z) == 2 ? SM_sq2[k] : SM_sq3[k])
/* SUM_{z' >= z} sqz'[k] */
#define SM_SQTAIL(k, z) (((z) <= 0 ? SM_sq0[k] : 0UL) + ((z) <= 1 ? SM_sq1[k] : 0UL) + ((z) <= 2 ? SM_sq2[k] : 0UL) + ((z) <= 3 ? SM_sq3[k] : 0UL))

#define SiteMap_begin(m_) ((SiteMapIt){ (m_), 0 })
#define SiteMap_end(m_) ((SiteMapIt){ (m_), (m_)->n })
#define SiteMapIt_inc(it) ((it)->pos++, (it))
#define op_ne_SiteMapIt_SiteMapIt(a, b) ((a)->pos != (b)->pos)
#define op_eq_SiteMapIt_SiteMapIt(a, b) ((a)->pos == (b)->pos)
#define SM_AX_Z(_k, sqz, _z) { \
    __CPROVER_assume(sqz[(_k) + 1] <= SM_TOTAL_MAX); \
    __CPROVER_assume(sqz[_k] == sqz[(_k) + 1] + (SM_spin(_k) > (_z) ? (unsigned long)SM_orb(_k) : 0UL)); \
    __CPROVER_assume(sqz[_k] <= SM_TOTAL_MAX); }
#ifdef SM_NO_SQ     /* harnesses that do not use the layer sums sqZ compile them out (fewer array reads) */
#define SM_AX_SQ(_k) { }
#else
#define SM_AX_SQ(_k) { SM_AX_Z(_k, SM_sq0, 0) SM_AX_Z(_k, SM_sq1, 1) SM_AX_Z(_k, SM_sq2, 2) SM_AX_Z(_k, SM_sq3, 3) }
#endif
#define SM_ASSUME_AT(_m, _k) { \
  if ((_m)->gk >= 0 && (_k) < (_m)->gk) __CPROVER_assume(SM_label(_k) < SM_label((_m)->gk));   /* A2 */ \
  if ((_m)->gk >= 0 && (_k) > (_m)->gk) __CPROVER_assume(SM_label(_k) > SM_label((_m)->gk)); \
  if ((_m)->gk < 0) __CPROVER_assume(SM_label(_k) != (_m)->glabel); \
  __CPROVER_assume(SITEPOS(SM_label(_k)) == (_k));                                       /* A3 */ \
  if ((_m)->smax_on) __CPROVER_assume(SM_spin(_k) <= SM_SMAX);                           /* A5 */ \
  if ((_m)->sums) {                                                                      /* A4 */ \
    __CPROVER_assume(SM_suf[(_k) + 1] <= SM_TOTAL_MAX); \
    __CPROVER_assume(SM_suf[_k] == SM_suf[(_k) + 1] + (unsigned long)SM_orb(_k) * (unsigned long)SM_spin(_k)); \
    __CPROVER_assume(SM_suf[_k] <= SM_TOTAL_MAX); \
    SM_AX_SQ(_k) \
  } \
  }
#define SiteMapIt_arrow(it) ({ \
  __CPROVER_assert(0 <= (it)->pos && (it)->pos < (it)->m->n, "std::map iterator dereferenced only before end()"); \
  SM_ASSUME_AT((it)->m, (it)->pos) \
  (it)->cur = SM_site[(it)->pos]; (it)->pair.first = SM_label((it)->pos); (it)->pair.second = ((it)->pos == (it)->m->gk) ? &SM_gsite : &(it)->cur; \
  &(it)->pair; })
/* members of the iterator written by a dereference (for assigns clauses of loops that do not advance it) */
#define SM_IT_CURSOR(it) (it).pair, (it).cur
#define SiteMapIt_mul(it) SiteMapIt_arrow(it)
/* find: the position of the key (A3), end() if absent */
static inline SiteMapIt SiteMap_find_f(SiteMap *m, label_t l)
{
  long p = SITEPOS(l);
  __CPROVER_assume(0 <= p && p <= m->n);
  if (p < m->n) __CPROVER_assume(SM_label(p) == l);
  SiteMapIt it = { m, p };
  return it;
}
#define SiteMap_find(m_, l_) (*(SiteMapIt[1]){ SiteMap_find_f((m_), (l_)) })        /* an lvalue: callers take its address */
/* lower_bound: the first position whose key is not less than l (the position of l itself when it is present), end() if there is none */
static inline SiteMapIt SiteMap_lower_bound_f(SiteMap *m, label_t l)
{
  long q = SITEPOS(l), p;
  __CPROVER_assume(0 <= q && q <= m->n);
  if (q < m->n) { __CPROVER_assume(SM_label(q) == l); p = q; }
  else {
    p = nondet_long();
    __CPROVER_assume(0 <= p && p <= m->n);
    if (p < m->n) __CPROVER_assume(SM_label(p) > l);          /* keys are strictly increasing with the position (A2) */
    if (p > 0) __CPROVER_assume(SM_label(p - 1) < l);
  }
  SiteMapIt it = { m, p };
  return it;
}
#define SiteMap_lower_bound(m_, l_) (*(SiteMapIt[1]){ SiteMap_lower_bound_f((m_), (l_)) })
struct Lattice_Site *SM_ins_slot; label_t SM_ins_label; unsigned long SM_ins_calls;     /* used by the insert model only */
#ifdef SM_INSERT_MODEL
/* operator[] as used by Lattice::addSite (`Sites[label] = S`): the reference to the mapped pointer of `label`,
 * inserted if absent: ONE cell, the key is recorded (ASSUMED: std::map::operator[] returns the cell of that key) */
#define SiteMap_at(m_, l_) (SM_ins_label = (l_), SM_ins_calls++, &SM_ins_slot)
#else
/* operator[]: reference to the mapped pointer (a temporary cell holding &SM_site[position]) */
static inline struct Lattice_Site *SiteMap_at_p(SiteMap *m, label_t l, struct Lattice_Site *buf)
{
  long p = SITEPOS(l);
  __CPROVER_assume(0 <= p && p <= m->n);
  __CPROVER_assert(p < m->n, "std::map operator[] used only with an existing key (else it inserts a null Site*)");
  if (p >= m->n) return (struct Lattice_Site *)0;
  __CPROVER_assume(SM_label(p) == l);
  SM_ASSUME_AT(m, p)
  *buf = SM_site[p];
  return buf;
}
/* a plain expression (temporaries of a statement expression would be dead when the caller dereferences) */
#define SiteMap_at(m_, l_) (&(struct Lattice_Site *){ SiteMap_at_p((m_), (l_), (struct Lattice_Site[1]){ { 0 } }) })
#endif

/* proof of lemma L1 by induction over k = n..0 (checked by CBMC: harness h_lemma_sitemap_sqsum in specs/indexclass.c) */
#ifndef SM_NO_SQ
void SiteMap_lemma_sqsum(SiteMap *m)
__CPROVER_requires(__CPROVER_is_fresh(m, sizeof(*m)) && SiteMap_wf_base(m) && m->smax_on)
__CPROVER_assigns()
__CPROVER_ensures(SM_SQSUM(0) == SM_suf[0])
{
  long k = m->n;
  while (k > 0)
  __CPROVER_assigns(k)
  __CPROVER_loop_invariant(0 <= k && k <= m->n && SM_SQSUM(k) == SM_suf[k] && SM_suf[k] <= SM_TOTAL_MAX)
  __CPROVER_decreases(k)
  {
    k--;
    SM_ASSUME_AT(m, k)      /* the definitions A4 and the domain restriction A5 at site k */
  }
}
#endif
/* twins for the other spelling of an increment (`++it` for `it++` and vice versa): same effect.  X_inc yields the iterator after the step
 * (exact); X_postinc made from X_inc is void, so a use of its value does not compile (UNDECIDED) instead of being modelled wrongly */
#define SiteMapIt_postinc(it_) ((void)SiteMapIt_inc(it_))
#endif
