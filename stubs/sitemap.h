/* sitemap.h -- Lattice::SiteMap = std::map<std::string, Lattice::Site*> (DESIGN 3.2: std::map).
 * Include AFTER `struct Lattice_Site` is defined (//@struct Pomerol::Lattice::Site) and after strlabel.h.
 *
 * MODEL: the entries in iteration order as parallel arrays over k in [0,n):
 *     SM_label[k]  key (label id), strictly increasing (std::map iterates in key order; keys are unique)
 *     SM_orb[k], SM_spin[k]   OrbitalSize / SpinSize of the Site object the mapped pointer refers to
 *   The arrays are unbounded GLOBALS (one lattice per harness, n <= SM_NMAX): typed arrays read at a
 *   symbolic index are cheap for CBMC, separately allocated objects of symbolic size are not. `extern` without
 *   definition = arbitrary content.
 *   Dereferencing an iterator presents entry k through a cursor inside the iterator object (`pair`, `cur`):
 *   pair.first = label[k], pair.second = &cur, cur = Site{label[k], orb[k], spin[k]}; operator[] through
 *   a temporary.  (Writes to the caller's local iterator need no write-set check.)  This is exact for code that
 *   does not keep the reference beyond the iterator's lifetime and does not compare Site addresses; harnesses
 *   that need the identity of the Site object (getSite) provide the optional array `store` (A1).
 *   GHOST data:
 *     glabel / gk   ONE ghost key: gk = its position or -1 if the map has no such key;
 *     SM_suf[0..n], SM_sq0..3[0..n]   suffix sums over the sites (spec functions from the property statement C18):
 *                     suf[k] = SUM_{j>=k} orb[j]*spin[j]       sqZ[k] = SUM_{j>=k, spin[j] > Z} orb[j]
 * ASSERTED (obligations on pomerol): an iterator is dereferenced only before end(); operator[] is used
 *   only with existing keys (otherwise it would insert a null Site*).
 * ASSUMED (type invariant of the map + DEFINITION of the ghost sums, instantiated point-wise at the
 *   position that is dereferenced, against the one ghost key, which is arbitrary):
 *   A1  (only with `store`) the mapped pointer of entry k is &store[k], a Site with the content of entry k
 *   A2  key order: label[k] < label[gk] for k < gk, > for k > gk; label[k] != glabel if gk == -1
 *   A3  find(l)/operator[](l) answer with THE position of l (a function of the key: uninterpreted
 *       SITEPOS, = n if absent); SITEPOS(glabel) is gk (or n); SITEPOS(label[k]) = k
 *   A4  (only if m->sums) suf[k] = suf[k+1] + orb[k]*spin[k], sqZ[k] = sqZ[k+1] + (spin[k] > Z ? orb[k] : 0)
 *       (definition of the sums), all sums <= SM_TOTAL_MAX
 *   A5  (only if m->smax_on) spin[k] <= SM_SMAX   (domain restriction of that harness)
 */
#ifndef VERIF_SITEMAP_H
#define VERIF_SITEMAP_H
#include "common.h"
#include "strlabel.h"
#define SM_SMAX 4   /* the explicit sums below are written for 4 */
#define SM_TOTAL_MAX 65536UL
#define SM_NMAX 65536L
#define SM_CAP __CPROVER_constant_infinity_uint   /* unbounded arrays: CBMC bit-blasts arrays of constant size */
extern label_t SM_label[SM_CAP]; extern unsigned short SM_orb[SM_CAP], SM_spin[SM_CAP];
extern unsigned long SM_suf[SM_CAP], SM_sq0[SM_CAP], SM_sq1[SM_CAP], SM_sq2[SM_CAP], SM_sq3[SM_CAP];
typedef struct SitePair { label_t first; struct Lattice_Site *second; } SitePair;
typedef struct SiteMap {
  long n;
  label_t glabel; long gk;
  _Bool sums;                                       /* the harness uses the ghost sums (A4) */
  _Bool smax_on;
  struct Lattice_Site *store;                       /* optional (may be null): the Site objects themselves, see SiteMapIt_arrow */
} SiteMap;
typedef struct SiteMapIt { SiteMap *m; long pos; SitePair pair; struct Lattice_Site cur; /* cursor */ } SiteMapIt;
long __CPROVER_uninterpreted_sitepos(label_t);
#define SITEPOS(l) __CPROVER_uninterpreted_sitepos(l)

/* type invariant for functions that only look up / iterate sites (no sums) */
static inline _Bool SiteMap_wf_nosums(SiteMap *m)
{
  return 0 <= m->n && m->n <= SM_NMAX && !m->sums &&
         -1 <= m->gk && m->gk < m->n && m->store == (struct Lattice_Site *)0 &&
         SITEPOS(m->glabel) == (m->gk >= 0 ? m->gk : m->n) &&
         (m->gk >= 0 ==> SM_label[m->gk] == m->glabel);
}
/* type invariant with the ghost sums (without the lemma L1 below) */
static inline _Bool SiteMap_wf_base(SiteMap *m)
{
  return 0 <= m->n && m->n <= SM_NMAX && m->sums &&
         SM_suf[m->n] == 0 && SM_sq0[m->n] == 0 && SM_sq1[m->n] == 0 && SM_sq2[m->n] == 0 && SM_sq3[m->n] == 0 &&
         SM_suf[0] <= SM_TOTAL_MAX &&
         -1 <= m->gk && m->gk < m->n && m->store == (struct Lattice_Site *)0 &&
         SITEPOS(m->glabel) == (m->gk >= 0 ? m->gk : m->n) &&
         (m->gk >= 0 ==> SM_label[m->gk] == m->glabel);
}
#define SM_SQSUM(k) (SM_sq0[k] + SM_sq1[k] + SM_sq2[k] + SM_sq3[k])
/* LEMMA L1 (consequence of the definitions A4 under A5; proved by induction over k in harness
 * h_lemma_sitemap_sqsum of specs/indexclass.c, function SiteMap_lemma_sqsum at the end of this file):
 *   spin[k] <= 4 for all k  ==>  sq0[0]+sq1[0]+sq2[0]+sq3[0] == suf[0]     (SUM_k orb*spin counted layer by layer) */
static inline _Bool SiteMap_wf(SiteMap *m)
{
  return SiteMap_wf_base(m) && (m->smax_on ==> SM_SQSUM(0) == SM_suf[0]);
}
#define SM_SQ(z, k) ((z) == 0 ? SM_sq0[k] : (z) == 1 ? SM_sq1[k] : (z) == 2 ? SM_sq2[k] : SM_sq3[k])
/* SUM_{z' >= z} sqz'[k] */
#define SM_SQTAIL(k, z) (((z) <= 0 ? SM_sq0[k] : 0UL) + ((z) <= 1 ? SM_sq1[k] : 0UL) + ((z) <= 2 ? SM_sq2[k] : 0UL) + ((z) <= 3 ? SM_sq3[k] : 0UL))

#define SiteMap_begin(m_) ((SiteMapIt){ (m_), 0 })
#define SiteMap_end(m_) ((SiteMapIt){ (m_), (m_)->n })
#define SiteMapIt_inc(it) ((it)->pos++, (it))
#define op_ne_SiteMapIt_SiteMapIt(a, b) ((a)->pos != (b)->pos)
#define op_eq_SiteMapIt_SiteMapIt(a, b) ((a)->pos == (b)->pos)
#define SM_AX_Z(_k, sqz, _z) do { \
    __CPROVER_assume(sqz[(_k) + 1] <= SM_TOTAL_MAX); \
    __CPROVER_assume(sqz[_k] == sqz[(_k) + 1] + (SM_spin[_k] > (_z) ? (unsigned long)SM_orb[_k] : 0UL)); \
    __CPROVER_assume(sqz[_k] <= SM_TOTAL_MAX); } while (0)
#define SM_ASSUME_AT(_m, _k) do { \
  if ((_m)->gk >= 0 && (_k) < (_m)->gk) __CPROVER_assume(SM_label[_k] < SM_label[(_m)->gk]);   /* A2 */ \
  if ((_m)->gk >= 0 && (_k) > (_m)->gk) __CPROVER_assume(SM_label[_k] > SM_label[(_m)->gk]); \
  if ((_m)->gk < 0) __CPROVER_assume(SM_label[_k] != (_m)->glabel); \
  __CPROVER_assume(SITEPOS(SM_label[_k]) == (_k));                                       /* A3 */ \
  if ((_m)->smax_on) __CPROVER_assume(SM_spin[_k] <= SM_SMAX);                           /* A5 */ \
  if ((_m)->sums) {                                                                      /* A4 */ \
    __CPROVER_assume(SM_suf[(_k) + 1] <= SM_TOTAL_MAX); \
    __CPROVER_assume(SM_suf[_k] == SM_suf[(_k) + 1] + (unsigned long)SM_orb[_k] * (unsigned long)SM_spin[_k]); \
    __CPROVER_assume(SM_suf[_k] <= SM_TOTAL_MAX); \
    SM_AX_Z(_k, SM_sq0, 0); SM_AX_Z(_k, SM_sq1, 1); SM_AX_Z(_k, SM_sq2, 2); SM_AX_Z(_k, SM_sq3, 3); \
  } \
  } while (0)
/* dereference: the cursor lives INSIDE the iterator (a local variable of the caller: no heap write);
 * if the harness provides `store`, the mapped pointer is &store[k] with the same content (A1) */
#define SiteMapIt_arrow(it) ({ \
  SiteMap *_m = (it)->m; long _k = (it)->pos; \
  __CPROVER_assert(0 <= _k && _k < _m->n, "std::map iterator dereferenced only before end()"); \
  SM_ASSUME_AT(_m, _k); \
  (it)->cur.Label = SM_label[_k]; (it)->cur.OrbitalSize = SM_orb[_k]; (it)->cur.SpinSize = SM_spin[_k]; \
  (it)->pair.first = SM_label[_k]; (it)->pair.second = &(it)->cur; \
  if (_m->store != (struct Lattice_Site *)0) { \
    __CPROVER_assume(_m->store[_k].Label == SM_label[_k] && _m->store[_k].OrbitalSize == SM_orb[_k] && _m->store[_k].SpinSize == SM_spin[_k]);  /* A1 */ \
    (it)->pair.second = &_m->store[_k]; } \
  &(it)->pair; })
#define SiteMapIt_mul(it) SiteMapIt_arrow(it)
/* find: the position of the key (A3), end() if absent */
#define SiteMap_find(m_, l_) ({ \
  SiteMap *_m = (m_); long _p = SITEPOS(l_); \
  __CPROVER_assume(0 <= _p && _p <= _m->n); \
  if (_p < _m->n) __CPROVER_assume(SM_label[_p] == (l_)); \
  (SiteMapIt){ _m, _p }; })
/* operator[]: reference to the mapped pointer (a temporary cell; the Site through a temporary copy) */
#define SiteMap_at(m_, l_) ({ \
  SiteMap *_m = (m_); long _p = SITEPOS(l_); \
  __CPROVER_assume(0 <= _p && _p <= _m->n); \
  __CPROVER_assert(_p < _m->n, "std::map operator[] used only with an existing key (else it inserts a null Site*)"); \
  struct Lattice_Site **_r = &(struct Lattice_Site *){ (struct Lattice_Site *)0 }; \
  if (_p < _m->n) { __CPROVER_assume(SM_label[_p] == (l_)); SM_ASSUME_AT(_m, _p); \
    _r = &(struct Lattice_Site *){ &(struct Lattice_Site){ SM_label[_p], SM_orb[_p], SM_spin[_p] } }; } \
  _r; })

/* proof of lemma L1 by induction over k = n..0 (checked by CBMC: harness h_lemma_sitemap_sqsum in specs/indexclass.c) */
void SiteMap_lemma_sqsum(SiteMap *m)
__CPROVER_requires(__CPROVER_is_fresh(m, sizeof(*m)) && SiteMap_wf_base(m) && m->smax_on)
__CPROVER_assigns()
__CPROVER_ensures(SM_SQSUM(0) == SM_suf[0])
{
  long k = m->n;
  while (k > 0)
  __CPROVER_assigns(k)
  __CPROVER_loop_invariant(0 <= k && k <= m->n && SM_SQSUM(k) == SM_suf[k] && SM_suf[k] <= SM_TOTAL_MAX)
  __CPROVER_decreases(k)
  {
    k--;
    SM_ASSUME_AT(m, k);     /* the definitions A4 and the domain restriction A5 at site k */
  }
}
#endif
