// Native replay: FieldOperatorContainer::getCreationOperator(i) for a VALID index i that was not passed to prepareAll().
// Header: "Returns the CreationOperator for a given Index. Makes on-demand computation."  The code does `return *mapCreationOperators[in];`
// operator[] inserts a null pointer for the missing key, the function returns a null reference (UBSan: reference binding to null pointer).
#include <pomerol/Misc.h>
#include <pomerol/Lattice.h>
#include <pomerol/LatticePresets.h>
#include <pomerol/IndexClassification.h>
#include <pomerol/IndexHamiltonian.h>
#include <pomerol/Symmetrizer.h>
#include <pomerol/StatesClassification.h>
#include <pomerol/Hamiltonian.h>
#include <pomerol/FieldOperatorContainer.h>
#include <cstdio>
using namespace Pomerol;
int main(int argc, char** argv)
{
    boost::mpi::environment env(argc, argv); boost::mpi::communicator world;
    Lattice L; L.addSite(new Lattice::Site("A", 1, 2)); LatticePresets::addCoulombS(&L, "A", 1.0, -0.5);
    IndexClassification I(L.getSiteMap()); I.prepare();
    IndexHamiltonian H(&L, I); H.prepare();
    Symmetrizer S(I, H); S.compute();
    StatesClassification St(I, S); St.compute();
    Hamiltonian Ham(I, H, St); Ham.prepare(); Ham.compute(world);
    FieldOperatorContainer Ops(I, St, Ham);
    std::set<ParticleIndex> only0; only0.insert(0);
    Ops.prepareAll(only0); Ops.computeAll();
    std::printf("index 1 is valid: checkIndex(1) = %d\n", int(I.checkIndex(1)));
    try {
        const CreationOperator &cx = Ops.getCreationOperator(1);      // <- was a null reference before the repair (D17)
        std::printf("address of the returned operator: %p\n", (const void*)&cx);
        if (&cx == 0) { std::printf("REPLAY-FAIL foc_ondemand: getCreationOperator(1) returned a null reference\n"); return 1; }
        std::printf("index of the returned operator: %u\n", cx.getIndex());
        if (cx.getIndex() != 1) { std::printf("REPLAY-FAIL foc_ondemand: operator of another index returned\n"); return 1; }
    } catch (std::logic_error &e) {
        std::printf("getCreationOperator(1) throws std::logic_error(\"%s\") for the unprepared index (accepted: no null reference)\n", e.what());
    }
    std::printf("REPLAY-OK foc_ondemand: 1 input\n"); return 0;
}
