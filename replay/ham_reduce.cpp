// Native replay: Hamiltonian::reduce(Cutoff) on a two-site Hubbard model (public API only).  HamiltonianPart::reduce assigns
// `Eigenvalues = Eigenvalues.head(counter)` and `H = H.topLeftCorner(counter,counter)`: an Eigen assignment whose source is a
// block of the destination and whose destination is RESIZED first (Eigen assumes no aliasing for Block expressions), so the
// source refers to freed storage whenever counter < size.  ASan reports heap-use-after-free.
#include <pomerol/Misc.h>
#include <pomerol/Lattice.h>
#include <pomerol/LatticePresets.h>
#include <pomerol/Index.h>
#include <pomerol/IndexClassification.h>
#include <pomerol/Operator.h>
#include <pomerol/IndexHamiltonian.h>
#include <pomerol/Symmetrizer.h>
#include <pomerol/StatesClassification.h>
#include <pomerol/Hamiltonian.h>
#include <cstdio>
using namespace Pomerol;
int main(int argc, char** argv)
{
    boost::mpi::environment env(argc, argv); boost::mpi::communicator world;
    Lattice L; L.addSite(new Lattice::Site("A", 1, 2)); L.addSite(new Lattice::Site("B", 1, 2));
    LatticePresets::addCoulombS(&L, "A", 1.0, -0.5); LatticePresets::addCoulombS(&L, "B", 1.0, -0.5);
    LatticePresets::addHopping(&L, "A", "B", -1.0);
    IndexClassification I(L.getSiteMap()); I.prepare();
    IndexHamiltonian H(&L, I); H.prepare();
    Symmetrizer S(I, H); S.compute();
    StatesClassification St(I, S); St.compute();
    Hamiltonian Ham(I, H, St); Ham.prepare(); Ham.compute(world);
    RealVectorType before = Ham.getEigenValues();
    double E0 = Ham.getGroundEnergy(), cutoff = 1.0;
    size_t expect = 0; for (long i = 0; i < before.size(); ++i) if (before[i] <= E0 + cutoff) ++expect;
    std::printf("ground energy %.6f, %ld eigenvalues, %zu of them <= E0 + %.1f\n", E0, (long)before.size(), expect, cutoff);
    Ham.reduce(cutoff);     // <- ASan: heap-use-after-free inside HamiltonianPart::reduce
    size_t kept = 0, above = 0;
    for (BlockNumber b = 0; b < St.NumberOfBlocks(); b++) {
        const HamiltonianPart &p = Ham.getPart(b);
        for (long k = 0; k < p.Eigenvalues.size(); ++k) { ++kept; if (!(p.Eigenvalues[k] <= E0 + cutoff)) ++above; }
        if (p.H.rows() != p.Eigenvalues.size() || p.H.cols() != p.Eigenvalues.size()) { std::printf("REPLAY-FAIL ham_reduce: block %d: H is %ldx%ld, %ld eigenvalues\n", int(b), (long)p.H.rows(), (long)p.H.cols(), (long)p.Eigenvalues.size()); return 1; }
    }
    std::printf("after reduce: %zu eigenvalues stored, %zu of them above the cutoff (blocks lying entirely above the cutoff are left untouched)\n", kept, above);
    std::printf("REPLAY-OK ham_reduce: 1 input\n"); return 0;
}
