// Native replay / failing-input search for the sparse Lehmann walks, against the REAL library sources of /repo
// (compiled with -fsanitize=address,undefined -fno-access-control).  Not the deciding step of any property:
// it turns a failed proof obligation into a concrete input of the real code (or fails to).
//   sparsewalk gfp|sp|chase <seed> <cases>
// Inputs: random tiny compressed sparse matrices (tightly allocated copies), random spectra/weights.
// Oracle = the property statement evaluated by brute force over the dense representation:
//   gfp  : G(z)   = sum_{n,m} C[n,m] CX[m,n] (w_n + w_m) / (z - (E_m - E_n))            (terms with |residue| <= 1e-8 dropped)
//   sp   : chi(z) = - sum_{n,m, |E_m-E_n|>=1e-8} A[n,m] B[m,n] (w_n - w_m) / (z - (E_m - E_n)) + [|z|<1e-15] beta sum_{|E_m-E_n|<1e-8} A B w_n
//   chase: chaseIndices post-condition (see specs/chase.c)
// ASan/UBSan reports abort the process (exit != 0).
#include <cstdio>
#include <cstdlib>
#include <cmath>
#include <vector>
#include <random>
#include <new>
#include <pomerol/GreensFunctionPart.h>
#include <pomerol/SusceptibilityPart.h>
#include "../../src/pomerol/TwoParticleGFPart.cpp"   // chaseIndices is file-static
using namespace Pomerol;

static std::mt19937 rng;
static int rnd(int n) { return std::uniform_int_distribution<int>(0, n - 1)(rng); }
static double rval() { static const double v[] = {1.0, -0.5, 0.25, 2.0, -1.0}; return v[rnd(5)]; }

template <class M> static M tight(int rows, int cols, const std::vector<std::vector<double> >& d)
{
    typedef Eigen::Triplet<double> T; std::vector<T> t;
    for (int i = 0; i < rows; i++) for (int j = 0; j < cols; j++) if (d[i][j] != 0) t.push_back(T(i, j, d[i][j]));
    M m(rows, cols); m.setFromTriplets(t.begin(), t.end()); m.makeCompressed();
    M c = m;            // the copy is allocated tightly (nnz elements), as matrices produced by operator= / adjoint are
    c.data().squeeze();
    return c;
}
static std::vector<std::vector<double> > dense(int rows, int cols, int fill)
{
    std::vector<std::vector<double> > d(rows, std::vector<double>(cols, 0.0));
    for (int i = 0; i < rows; i++) for (int j = 0; j < cols; j++) if (rnd(100) < fill) d[i][j] = rval();
    return d;
}
template <class T> static T* raw() { void* p = ::operator new(sizeof(T)); std::memset(p, 0, sizeof(T)); return (T*)p; }

struct Parts {
    FieldOperatorPart *L, *R; HamiltonianPart *HI, *HO; DensityMatrixPart *DI, *DO_;
    std::vector<std::vector<double> > dl, dr; std::vector<double> EI, EO, wI, wO; int N, M; double beta;
};
static Parts make(int seed_fill)
{
    Parts p; p.N = 1 + rnd(3); p.M = 1 + rnd(3); p.beta = 2.0;
    p.dl = dense(p.N, p.M, seed_fill); p.dr = dense(p.M, p.N, seed_fill);
    p.L = raw<FieldOperatorPart>(); p.R = raw<FieldOperatorPart>();
    new (&p.L->elementsRowMajor) RowMajorMatrixType(tight<RowMajorMatrixType>(p.N, p.M, p.dl));
    new (&p.L->elementsColMajor) ColMajorMatrixType(tight<ColMajorMatrixType>(p.N, p.M, p.dl));
    new (&p.R->elementsRowMajor) RowMajorMatrixType(tight<RowMajorMatrixType>(p.M, p.N, p.dr));
    new (&p.R->elementsColMajor) ColMajorMatrixType(tight<ColMajorMatrixType>(p.M, p.N, p.dr));
    p.HI = raw<HamiltonianPart>(); p.HO = raw<HamiltonianPart>(); p.DI = raw<DensityMatrixPart>(); p.DO_ = raw<DensityMatrixPart>();
    new (&p.HI->Eigenvalues) RealVectorType(p.M); new (&p.HO->Eigenvalues) RealVectorType(p.N);
    new (&p.DI->weights) RealVectorType(p.M); new (&p.DO_->weights) RealVectorType(p.N);
    p.HI->Status = HamiltonianPart::Computed; p.HO->Status = HamiltonianPart::Computed;
    static const double lev[] = {-1.0, 0.0, 0.5, 0.5, 1.5};   // degenerate levels on purpose
    for (int i = 0; i < p.M; i++) { p.EI.push_back(lev[rnd(5)]); p.wI.push_back(0.05 + 0.1 * rnd(4)); p.HI->Eigenvalues(i) = p.EI[i]; p.DI->weights(i) = p.wI[i]; }
    for (int i = 0; i < p.N; i++) { p.EO.push_back(lev[rnd(5)]); p.wO.push_back(0.05 + 0.1 * rnd(4)); p.HO->Eigenvalues(i) = p.EO[i]; p.DO_->weights(i) = p.wO[i]; }
    const_cast<RealType&>(p.DI->beta) = p.beta; const_cast<RealType&>(p.DO_->beta) = p.beta;
    const_cast<ComplexType&>(p.DI->MatsubaraSpacing) = I * M_PI / p.beta;
    return p;
}
static void dump(const Parts& p)
{
    std::printf("  input: N=%d M=%d beta=%g\n  left  (N x M):", p.N, p.M, p.beta);
    for (int i = 0; i < p.N; i++) { std::printf(" ["); for (int j = 0; j < p.M; j++) std::printf(" %g", p.dl[i][j]); std::printf(" ]"); }
    std::printf("\n  right (M x N):");
    for (int i = 0; i < p.M; i++) { std::printf(" ["); for (int j = 0; j < p.N; j++) std::printf(" %g", p.dr[i][j]); std::printf(" ]"); }
    std::printf("\n  E_outer:"); for (double x : p.EO) std::printf(" %g", x); std::printf("  w_outer:"); for (double x : p.wO) std::printf(" %g", x);
    std::printf("\n  E_inner:"); for (double x : p.EI) std::printf(" %g", x); std::printf("  w_inner:"); for (double x : p.wI) std::printf(" %g", x);
    std::printf("\n");
}
static bool differ(ComplexType a, ComplexType b) { return std::abs(a - b) > 1e-9 * (1.0 + std::abs(a) + std::abs(b)); }

static int run_gfp(int cases)
{
    for (int c = 0; c < cases; c++) {
        Parts p = make(20 + 15 * rnd(5));
        GreensFunctionPart g((AnnihilationOperatorPart&)*p.L, (CreationOperatorPart&)*p.R, *p.HI, *p.HO, *p.DI, *p.DO_);
        g.compute();
        const ComplexType zs[] = {ComplexType(0.3, 1.7), ComplexType(-2.1, 0.4)};
        for (ComplexType z : zs) {
            ComplexType ref = 0;
            for (int n = 0; n < p.N; n++) for (int m = 0; m < p.M; m++) {
                double res = p.dl[n][m] * p.dr[m][n] * (p.wO[n] + p.wI[m]);
                if (std::abs(res) > 1e-8) ref += res / (z - (p.EI[m] - p.EO[n]));
            }
            ComplexType got = g(z);
            if (differ(got, ref)) { std::printf("REPLAY-FAIL gfp case %d: G(z=(%g,%g)) = (%.12g,%.12g), Lehmann sum = (%.12g,%.12g)\n", c, z.real(), z.imag(), got.real(), got.imag(), ref.real(), ref.imag()); dump(p); return 1; }
        }
    }
    return 0;
}
static int run_sp(int cases)
{
    for (int c = 0; c < cases; c++) {
        Parts p = make(20 + 15 * rnd(5));
        SusceptibilityPart s((QuadraticOperatorPart&)*p.L, (QuadraticOperatorPart&)*p.R, *p.HI, *p.HO, *p.DI, *p.DO_);
        s.compute();
        const ComplexType zs[] = {ComplexType(0.3, 1.7), ComplexType(0.0, 0.0)};
        for (ComplexType z : zs) {
            ComplexType ref = 0;
            for (int n = 0; n < p.N; n++) for (int m = 0; m < p.M; m++) {
                double ab = p.dl[n][m] * p.dr[m][n], pole = p.EI[m] - p.EO[n];
                if (ab == 0) continue;
                if (std::abs(pole) < 1e-8) { if (std::abs(z) < 1e-15) ref += ab * p.wO[n] * p.beta; }
                else { double res = ab * (p.wO[n] - p.wI[m]); if (std::abs(res) > 1e-8) ref += -res / (z - pole); }
            }
            ComplexType got = s(z);
            if (differ(got, ref)) { std::printf("REPLAY-FAIL sp case %d: chi(z=(%g,%g)) = (%.12g,%.12g), Lehmann sum = (%.12g,%.12g)\n", c, z.real(), z.imag(), got.real(), got.imag(), ref.real(), ref.imag()); dump(p); return 1; }
        }
    }
    return 0;
}
static int run_chase(int cases)
{
    for (int c = 0; c < cases; c++) {
        int N = 1 + rnd(3), M = 1 + rnd(4);
        std::vector<std::vector<double> > a = dense(N, M, 50), b = dense(M, N, 50);
        RowMajorMatrixType A = tight<RowMajorMatrixType>(N, M, a); ColMajorMatrixType B = tight<ColMajorMatrixType>(M, N, b);
        int r = rnd(N), col = rnd(N);
        RowMajorMatrixType::InnerIterator i1(A, r); ColMajorMatrixType::InnerIterator i2(B, col);
        int s1 = rnd(3), s2 = rnd(3);
        for (int k = 0; k < s1 && i1; k++) ++i1; for (int k = 0; k < s2 && i2; k++) ++i2;
        if (!i1 || !i2) continue;                       // pre-condition: both iterators valid
        long x1 = i1.index(), x2 = i2.index();
        std::vector<long> row, colv; for (int j = 0; j < M; j++) { if (a[r][j] != 0) row.push_back(j); if (b[j][col] != 0) colv.push_back(j); }
        bool res = chaseIndices(i1, i2);
        bool ok = (res == (x1 == x2));
        if (res) ok = ok && i1 && i2 && i1.index() == x1 && i2.index() == x2;
        else if (x1 < x2) { long want = -1; for (long j : row) if (j >= x2) { want = j; break; } ok = ok && i2.index() == x2 && (want < 0 ? !i1 : (i1 && i1.index() == want)); }
        else { long want = -1; for (long j : colv) if (j >= x1) { want = j; break; } ok = ok && i1.index() == x1 && (want < 0 ? !i2 : (i2 && i2.index() == want)); }
        if (!ok) { std::printf("REPLAY-FAIL chase case %d: row indices", c); for (long j : row) std::printf(" %ld", j); std::printf(" | column indices"); for (long j : colv) std::printf(" %ld", j);
                   std::printf(" | start (%ld,%ld) result %d\n", x1, x2, (int)res); return 1; }
    }
    return 0;
}
int main(int argc, char** argv)
{
    if (argc < 4) return 2;
    rng.seed(std::atoi(argv[2])); int cases = std::atoi(argv[3]);
    std::string m = argv[1];
    int rc = m == "gfp" ? run_gfp(cases) : m == "sp" ? run_sp(cases) : m == "chase" ? run_chase(cases) : 2;
    if (rc == 0) std::printf("REPLAY-OK %s: %d random inputs, real library agrees with the brute-force oracle, no sanitizer report\n", argv[1], cases);
    return rc;
}
