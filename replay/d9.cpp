// Native replay of known finding D9 against the real library: one-site Hubbard atom, user-supplied integral of motion
// Q = n_up n_down (diagonal, commutes with H and every n_i, NOT linear in the occupation numbers).  The Symmetrizer accepts it,
// c^+ then maps one block into two blocks, FieldOperator keeps only the first target, and G_00 loses its spectral weight.
#include <pomerol/Misc.h>
#include <pomerol/Lattice.h>
#include <pomerol/LatticePresets.h>
#include <pomerol/Index.h>
#include <pomerol/IndexClassification.h>
#include <pomerol/Operator.h>
#include <pomerol/OperatorPresets.h>
#include <pomerol/IndexHamiltonian.h>
#include <pomerol/Symmetrizer.h>
#include <pomerol/StatesClassification.h>
#include <pomerol/Hamiltonian.h>
#include <pomerol/FieldOperatorContainer.h>
#include <pomerol/DensityMatrix.h>
#include <pomerol/GreensFunction.h>
#include <cstdio>
using namespace Pomerol;
int main(int argc, char** argv)
{
    boost::mpi::environment env(argc, argv); boost::mpi::communicator world;
    double U = 1.0, eps = -0.3, beta = 2.0;
    auto G00 = [&](bool custom) {
        Lattice L; L.addSite(new Lattice::Site("A", 1, 2)); LatticePresets::addCoulombS(&L, "A", U, eps);
        IndexClassification I(L.getSiteMap()); I.prepare();
        IndexHamiltonian H(&L, I); H.prepare();
        Symmetrizer S(I, H);
        if (custom) { std::vector<Operator> q; q.push_back(OperatorPresets::n(0) * OperatorPresets::n(1)); S.compute(q); } else S.compute();
        StatesClassification St(I, S); St.compute();
        Hamiltonian Ham(I, H, St); Ham.prepare(); Ham.compute(world);
        DensityMatrix rho(St, Ham, beta); rho.prepare(); rho.compute();
        FieldOperatorContainer Ops(I, St, Ham); Ops.prepareAll(); Ops.computeAll();
        GreensFunction G(St, Ham, Ops.getAnnihilationOperator(0), Ops.getCreationOperator(0), rho); G.prepare(); G.compute();
        return G(0);
    };
    ComplexType ref = G00(false), got = G00(true);
    std::printf("G_00(i w_0): default analysis (%.6f,%.6f), accepted integral n_up*n_down (%.6f,%.6f)\n", ref.real(), ref.imag(), got.real(), got.imag());
    if (std::abs(ref - got) > 1e-8) { std::printf("REPLAY-FAIL d9: observables depend on the accepted integral of motion (single-target assumption broken)\n"); return 1; }
    std::printf("REPLAY-OK d9: 1 input, results agree\n"); return 0;
}
