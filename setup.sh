#!/bin/sh
# offline setup: nothing to build -- checks are python scripts driving clang/goto-cc/goto-instrument/cbmc.
# verify the tools and run the extractor self-test.
set -e
cd "$(dirname "$0")"
for t in clang++ goto-cc goto-instrument cbmc c++filt python3; do command -v $t >/dev/null || { echo "missing tool $t"; exit 1; }; done
cbmc --version | grep -q '^6\.' || { echo "unexpected cbmc version"; exit 1; }
mkdir -p build evidence replays
python3 tools/selftest.py
