#!/usr/bin/env python3
"""replay.py <driver> <mode> [seed] [cases] : build the REAL library sources of /repo's working tree with ASan/UBSan and
-fno-access-control in a scratch directory (removed afterwards), link the native driver /verif/replay/<driver>.cpp, run it.
Prints the driver's output; exit 0 = no failing input found, 1 = failing input found (REPLAY-FAIL or sanitizer report), 2 = build problem."""
import os, sys, subprocess, shutil, glob, tempfile, concurrent.futures as cf
V = os.path.dirname(os.path.dirname(os.path.abspath(__file__)))
REPO = os.environ.get('VERIF_REPO', '/repo')
def sh(cmd, **kw): return subprocess.run(cmd, capture_output=True, text=True, **kw)
def main():
    driver, mode = sys.argv[1], sys.argv[2]
    seed = sys.argv[3] if len(sys.argv) > 3 else '1'; cases = sys.argv[4] if len(sys.argv) > 4 else '3000'
    d = tempfile.mkdtemp(prefix='pomerol-verif.', dir='/var/tmp')
    try:
        inc = os.path.join(d, 'include', 'pomerol'); os.makedirs(inc)
        fi = os.path.join(REPO, '_build', 'include', 'pomerol', 'first_include.h')
        if os.path.exists(fi): shutil.copy(fi, inc)
        else: open(os.path.join(inc, 'first_include.h'), 'w').write('#define POMEROL_VERSION "1.3"\n#define POMEROL_USE_OPENMP\n#define POMEROL_CXX11\n')
        flags = ['-std=c++11', '-fopenmp', '-O1', '-g', '-fsanitize=address,undefined', '-fno-sanitize-recover=undefined', '-fno-sanitize=vptr', '-fno-access-control', '-w',
                 '-I' + os.path.join(REPO, 'include'), '-I' + os.path.join(d, 'include'), '-I/usr/include/eigen3',
                 '-isystem', '/usr/lib/x86_64-linux-gnu/openmpi/include', '-isystem', '/usr/lib/x86_64-linux-gnu/openmpi/include/openmpi']
        srcs = sorted(glob.glob(os.path.join(REPO, 'src', 'pomerol', '*.cpp')) + glob.glob(os.path.join(REPO, 'src', 'mpi_dispatcher', '*.cpp')))
        drv = os.path.join(V, 'replay', driver + '.cpp')
        # drivers that #include a library .cpp (file-static functions) must not link that object twice
        txt = open(drv).read()
        skip = {os.path.basename(x) for x in srcs if ('src/pomerol/' + os.path.basename(x)) in txt and '#include "../../src/pomerol/' + os.path.basename(x) in txt}
        objs = []
        def cc(s):
            o = os.path.join(d, os.path.basename(s) + '.o')
            r = sh(['g++'] + flags + ['-c', s, '-o', o]); return o, r
        with cf.ThreadPoolExecutor(16) as ex:
            for o, r in ex.map(cc, [s for s in srcs if os.path.basename(s) not in skip]):
                if r.returncode: print('REPLAY-BUILD-ERROR', r.stderr[-1500:]); return 2
                objs.append(o)
        # the driver includes ../../src/... relative to /verif/replay: compile a copy placed so that the include resolves to REPO
        rdir = os.path.join(d, 'verif', 'replay'); os.makedirs(rdir); os.symlink(os.path.join(REPO, 'src'), os.path.join(d, 'src'))
        shutil.copy(drv, rdir)
        exe = os.path.join(d, 'drv')
        r = sh(['g++'] + flags + [os.path.join(rdir, driver + '.cpp')] + objs + ['-o', exe, '-lboost_mpi', '-lboost_serialization', '-lmpi_cxx', '-lmpi'])
        if r.returncode: print('REPLAY-BUILD-ERROR', r.stderr[-2500:]); return 2
        env = dict(os.environ, ASAN_OPTIONS='detect_leaks=0', OMPI_ALLOW_RUN_AS_ROOT='1', OMPI_ALLOW_RUN_AS_ROOT_CONFIRM='1')
        r = sh([exe, mode, seed, cases], env=env, timeout=600)
        out = (r.stdout + '\n' + r.stderr[-3000:]).strip()
        print(out)
        return 0 if (r.returncode == 0 and 'REPLAY-OK' in r.stdout) else 1
    finally:
        shutil.rmtree(d, ignore_errors=True)
if __name__ == '__main__':
    sys.exit(main())
