#!/usr/bin/env python3
"""
run_cbmc: goto-cc -> goto-instrument --dfcc (contract + loop-contract instrumentation) -> cbmc,
for one harness of a woven spec file.  Returns a dict with per-obligation results.

verdict per harness:
  'pass'       every obligation SUCCESS
  'fail'       some obligation FAILURE (list in 'failed', traces reduced to assignments in 'trace')
  'undecided'  timeout / memory / tool error / suspicious log line
"""
import json, os, re, resource, subprocess, sys, time, signal

CHECKS = ['--bounds-check', '--pointer-check', '--signed-overflow-check', '--undefined-shift-check',
          '--div-by-zero-check', '--no-pointer-primitive-check']
SUSPICIOUS = ['ignoring forall', 'ignoring exists', 'Parse Error', 'too many addressed objects']

def _limit(mem_gb):
    def f():
        os.setsid()
        lim = int(mem_gb * (1 << 30))
        resource.setrlimit(resource.RLIMIT_AS, (lim, lim))
    return f

def run(cmd, timeout, mem_gb=8, cwd=None):
    t0 = time.time()
    try:
        p = subprocess.Popen(cmd, stdout=subprocess.PIPE, stderr=subprocess.PIPE, text=True, cwd=cwd, preexec_fn=_limit(mem_gb))
        try:
            out, err = p.communicate(timeout=timeout)
        except subprocess.TimeoutExpired:
            try: os.killpg(p.pid, signal.SIGKILL)
            except Exception: p.kill()
            out, err = p.communicate()
            return dict(rc=-9, out=out, err=err, timeout=True, s=time.time() - t0)
        return dict(rc=p.returncode, out=out, err=err, timeout=False, s=time.time() - t0)
    except Exception as e:
        return dict(rc=-1, out='', err=str(e), timeout=False, s=time.time() - t0)

def harness_cmds(cfile, h, outdir, reach=False, extra_defs=(), tag_=''):
    name = h['name']
    tag = name + ('.reach' if reach else '') + tag_
    a = os.path.join(outdir, tag + '.a.gb'); b = os.path.join(outdir, tag + '.b.gb')
    defs = [d for d in h.get('defs', '').split(',') if d] + list(extra_defs)
    if reach: defs.append('-DVERIF_REACH')
    cc = ['goto-cc', '--function', name] + defs + [cfile, '-o', a]
    enforce = h.get('enforce', 'none')
    gi = None
    lc = h.get('loopcontracts', h.get('loops', '1'))      # 'loops=0' is an alias of 'loopcontracts=0': plain cbmc, no DFCC instrumentation
    if enforce != 'none' or h.get('replace') or lc != '0':
        gi = ['goto-instrument', '--dfcc', name]
        # rec=1: the function under contract calls itself -- DFCC then checks the body with the recursive calls replaced by the contract
        if enforce != 'none': gi += ['--enforce-contract-rec' if h.get('rec') == '1' else '--enforce-contract', enforce]
        for r in [x for x in h.get('replace', '').split(',') if x]:
            gi += ['--replace-call-with-contract', r]
        if lc != '0': gi += ['--apply-loop-contracts']
        gi += [a, b]
    else:
        b = a
    cb = ['cbmc', b] + CHECKS + ['--object-bits', h.get('objbits', '12'), '--json-ui', '--trace', '--verbosity', '6', '--sat-solver', h.get('sat', 'cadical')]
    if h.get('nan') == '1': cb += ['--nan-check']
    if 'unwind' in h: cb += ['--unwind', h['unwind'], '--unwinding-assertions']
    if h.get('cbmc'): cb += h['cbmc'].split(',')
    if h.get('solver'): cb += h['solver'].split(',')
    return cc, gi, cb

def parse_cbmc_json(txt):
    try:
        data = json.loads(txt)
    except Exception:
        # truncated output: try to close the list
        try: data = json.loads(txt.rstrip().rstrip(',') + ']')
        except Exception: return None, [], None
    results = None; msgs = []; status = None
    for item in data:
        if 'result' in item: results = item['result']
        if 'messageText' in item: msgs.append(item['messageText'])
        if 'cProverStatus' in item: status = item['cProverStatus']
    return results, msgs, status

def reduce_trace(tr):
    """keep assignments to named program variables (inputs of the counter-example)"""
    out = []
    for st in tr or []:
        if st.get('stepType') == 'assignment' and not st.get('hidden'):
            lhs = st.get('lhs', '')
            v = st.get('value', {})
            val = v.get('data', v.get('name'))
            if val is None and 'elements' in v: val = '{...}'
            loc = st.get('sourceLocation', {})
            out.append(dict(lhs=lhs, value=val, fn=loc.get('function'), line=loc.get('line')))
        elif st.get('stepType') == 'failure':
            out.append(dict(failure=st.get('property'), reason=st.get('reason'), line=st.get('sourceLocation', {}).get('line')))
    return out[-400:]

def run_harness(cfile, h, outdir, reach=False, timeout=None, extra_defs=(), mem_gb=None, properties=(), tag=''):
    mem_gb = mem_gb or float(h.get('mem', 8))
    os.makedirs(outdir, exist_ok=True)
    timeout = timeout or int(h.get('timeout', 300))
    cc, gi, cb = harness_cmds(cfile, h, outdir, reach, extra_defs, tag)
    for pr in properties: cb += ['--property', pr]
    res = dict(harness=h['name'], reach=reach, cmds=[' '.join(cc)] + ([' '.join(gi)] if gi else []) + [' '.join(cb)], verdict='undecided',
               obligations=0, discharged=0, failed=[], solver_s=0.0, reason='')
    t0 = time.time()
    r = run(cc, 300, mem_gb)
    if r['rc'] != 0:
        res['reason'] = 'goto-cc failed: ' + (r['err'] or r['out'])[-1500:]; res['wall_s'] = time.time() - t0; return res
    if gi and h.get('cexsearch_fns'):
        # counter-example search (./check: some functions of the woven file have loops WITHOUT loop contracts -- the spec's loop contracts
        # do not apply to the function's current body and were left out, or the function was printed automatically (member function of a
        # nested record) and the spec has nothing for it).  If the harness reaches such a loop (bodies of the functions replaced by their
        # contracts not counted), these loops are unwound `cexsearch` times BEFORE the contract instrumentation (DFCC is only sound for
        # loop-free or contracted code), without unwinding assertions: longer runs are cut off.  A failure found this way has a concrete
        # run of the model; the absence of a failure proves nothing (the caller reports UNDECIDED then).
        fns = [x for x in h['cexsearch_fns'].split(',') if x]; K = h.get('cexsearch', '4')
        a = cc[-1]; base = a[:-5] if a.endswith('.a.gb') else a
        t1 = base + '.r1.gb'; t2 = base + '.r2.gb'; a2 = base + '.u.gb'
        repl = [x for x in h.get('replace', '').split(',') if x]
        src = a
        if repl:
            rb = ['goto-instrument'] + [y for x in repl for y in ('--remove-function-body', x)] + [a, t1]
            if run(rb, 300, mem_gb)['rc'] == 0: src = t1
        ids = None
        if run(['goto-instrument', '--drop-unused-functions', src, t2], 300, mem_gb)['rc'] == 0:
            r = run(['goto-instrument', '--show-loops', t2], 300, mem_gb)
            if r['rc'] == 0: ids = re.findall(r'^Loop (\S+):', r['out'] + r['err'], re.M)
        if ids is None:
            res['reason'] = 'goto-instrument (loop listing) failed'; res['wall_s'] = time.time() - t0; return res
        ids = [x for x in ids if x.rsplit('.', 1)[0] in fns]
        if ids:
            pre = ['goto-instrument', '--unwindset', ','.join('%s:%s' % (x, K) for x in ids), '--no-unwinding-assertions', a, a2]
            r = run(pre, 600, mem_gb)
            if r['rc'] != 0:
                res['reason'] = 'goto-instrument (unwinding) failed: ' + (r['err'] or r['out'])[-1500:]; res['wall_s'] = time.time() - t0; return res
            gi = [a2 if x == a else x for x in gi]
            res['cmds'] = [res['cmds'][0], ' '.join(pre), ' '.join(gi)] + res['cmds'][2:]
            res['cexsearch_applied'] = ids
    if gi:
        r = run(gi, 600, mem_gb)
        if r['rc'] != 0:
            res['reason'] = 'goto-instrument failed: ' + (r['err'] or r['out'])[-1500:]; res['wall_s'] = time.time() - t0; return res
    r = run(cb, timeout, mem_gb)
    res['solver_s'] = round(r['s'], 2)
    res['wall_s'] = round(time.time() - t0, 2)
    if r['timeout']:
        res['reason'] = 'cbmc timeout after %ds' % timeout; return res
    results, msgs, status = parse_cbmc_json(r['out'])
    log = '\n'.join(msgs)
    res['log_tail'] = log[-1200:]
    for s in SUSPICIOUS:
        if s in log or s in r['err']:
            res['reason'] = 'suspicious log line: ' + s; return res
    if results is None:
        res['reason'] = 'no results from cbmc (rc=%s): %s' % (r['rc'], (log or r['err'] or r['out'])[-1500:]); return res
    res['obligations'] = len(results)
    failed = []
    samples = []
    unknown = 0
    for p in results:
        if p['status'] == 'SUCCESS':
            res['discharged'] += 1
            if len(samples) < 6 and ('postcondition' in p['property'] or 'loop_invariant' in p['property'] or 'assertion' in p['property']):
                samples.append(dict(obligation=p['property'], description=p.get('description', '')[:160], line=p.get('sourceLocation', {}).get('line')))
        elif p['status'] == 'FAILURE':
            failed.append(dict(obligation=p['property'], description=p.get('description', ''),
                               line=p.get('sourceLocation', {}).get('line'), function=p.get('sourceLocation', {}).get('function'),
                               trace=reduce_trace(p.get('trace'))))
        else:
            unknown += 1
    res['samples'] = samples
    res['failed'] = failed
    res['unknown'] = unknown
    if failed: res['verdict'] = 'fail'
    elif unknown: res['reason'] = '%d obligations with status UNKNOWN and no failure' % unknown
    else: res['verdict'] = 'pass'
    return res

if __name__ == '__main__':
    cfile, name = sys.argv[1], sys.argv[2]
    meta = json.load(open(cfile + '.meta.json'))
    h = [x for x in meta['harnesses'] if x['name'] == name][0]
    r = run_harness(cfile, h, os.path.dirname(cfile), reach='--reach' in sys.argv)
    for f in r['failed']:
        f['trace'] = f['trace'][-12:] if '--trace' in sys.argv else '...'
    print(json.dumps(r, indent=1))
