#!/usr/bin/env python3
"""build seeded/INDEX.json and a markdown detection table from seeded/*/meta.json, detection.json, confirmation.txt"""
import json, os, glob, re
V = os.path.dirname(os.path.dirname(os.path.abspath(__file__)))
rows = []; index = []
NOTES = {
 'C16-2': 'first NOT detected (called a schedule); detected after the MPI buffer-ownership rule was modelled (irecv may deliver eagerly; no program write to a posted buffer): MPIWorker constructor post-condition',
 'C16-1': 'first UNDECIDED (solver out of memory on the changed code); detected after the map model stopped returning cell pointers from a function',
 'C05-1': 'first UNDECIDED (one loop removed -> extraction break); detected after `check` learnt to drop loop contracts that no longer fit and run the harness as a counter-example search (function post-condition decides)',
 'C03-1': 'first UNDECIDED (std::min had no model, loop restructured); detected after vocabulary + loop-contract drop (post-condition: ground energy <= lowest eigenvalue of an arbitrary block)',
 'C09-1': 'C09 check passes by design (its contract REQUIRES eigenvalues >= ground energy, which is the post-condition of C03); detected by the C03 check',
 'C10-2': 'NOT a violation in the configuration that is verified: MelemType is real, Eigen adjoint() == transpose() (the change breaks the property only with -DPOMEROL_COMPLEX_MATRIX_ELEMENTS, a build that is not extracted); exit 0 after transpose() got a model',
 'C04-1': 'detected after the 8-argument addHopping was given its own contract (h_addHopping8) in response to this change',
 'C04-2': 'detected after addCoulombP was put under contract (round 2) in response to this change',
 'C01-2': 'detected after GFContainer::createElement was put under contract (specs/containers.c) in response to this change',
 'C14-2': 'detected after EnsembleAverage::prepare was put under contract (specs/ensavg.c) in response to this change',
 'C09-2': 'detected after EnsembleAverage::prepare was put under contract (specs/ensavg.c)',
 'C10-1': 'detected after the three operator prepare() functions were put under contract (specs/fieldopprep.c) in response to this change',
 'C02-1': 'detected through the TermList<T>::add_term template proof (specs/termlist.c, single-particle instantiation) after that harness was tagged for C02',
 'C17-3': 'detected by the C15 harnesses; they are now also tagged C17',
 'C19-1': 'first run UNDECIDED because the min_obl guard was evaluated before the failures; check fixed, now detected',
 'C01-b2': 'detected after the GreensFunction copy constructor was put under contract (round 3) in response to this change',
 'C09-b1': 'detected after the EnsembleAverage copy constructor was put under contract (round 3)',
 'C14-b2': 'detected by the Susceptibility copy-constructor contract (round 3)',
 'C02-b1': 'first UNDECIDED (the 3-argument call broke extraction); detected after a model of the 3-argument TermList call operator was added (records the documented default 1e-16)',
 'C02-b2': 'detected after ResonantTerm::IsNegligible was pinned (round 3)',
 'C04-b1': 'first UNDECIDED (call of another NupNdown overload had no stub); detected after stubs for all factory overloads were added (completeness obligation of addCoulombS)',
 'C05-b2': 'detected after the two-argument N/Sz::getMatrixElement were put under contract (round 3)',
 'C07-b1': 'first UNDECIDED (hand-written hash class -> extraction break); detected after the struct printer learnt nested records (stored hash is no longer boost::hash of the numbers)',
 'C07-b2': 'first UNDECIDED (floor() had no model), then exit 0 (the value handed to QuantumNumbers::set was not pinned); detected after the value was pinned to the matrix-element oracle of (operation, state)',
 'C10-b1': 'NOT detected (exit 0): the contract leaves the pruning threshold undecided -- the header documents "tolerance 1e-8", the unchanged code passes it as Eigen REFERENCE (effective cut-off 1e-20), the change makes the cut-off the documented 1e-8; two-argument sparseView/prune now have a model',
 'C04-b2': 'C04 check passes (Operator is a recording monitor there); detected by the C05 bounded normal-ordering harnesses',
 'C15-b1': 'first NOT detected; detected after the Vertex4 constructor was put under contract (reference members bound to the argument of the same name)',
 'C16-b1': 'first NOT detected; detected after the MPIMaster constructors were put under contract (they ESTABLISH Master_wf, which had been read off the constructor)',
 'C16-b2': "first NOT detected; detected by the same constructor contracts (Comm of the master is the caller's communicator)",
 'C18-b1': 'first UNDECIDED (std::map::lower_bound had no model); detected after the model was added',
 'C14-c2': 'first NOT detected; detected after SusceptibilityPart::Term::operator+=/Compare/IsNegligible were pinned (specs/suscterm.c)',
 'C02-c1': 'first NOT detected; detected after TwoParticleGFPart::clear() was put under contract (a purged part must stop reporting Computed)',
 'C01-c1': 'first UNDECIDED (std::real(complex) had no model); detected after default models of the <complex> free functions were added',
 'C01-c2': 'first reported through DFCC\'s "undefined function" assertion, which `check` now classifies as UNDECIDED (missing vocabulary); detected by a real obligation after GreensFunction::isVanishing got a model (computeAll computes EVERY element)',
 'C11-c1': 'detected by the C01 contract of GreensFunctionPart::compute, which the C11 check now also runs (the sum rules are consequences of the Lehmann sum)',
 'C11-c2': 'detected by the C01 contract of GreensFunction::prepare, which the C11 check now also runs',
 'C13-c2': 'first UNDECIDED (lower_bound on the container map had no model); detected after the model was added',
 'C04-c2': 'C04 check passes (term storage is not its subject); first UNDECIDED for C20 (non-const map iterator type had no mapping), detected by the C20 check after the mapping was added',
 'C10-c1': 'first NOT detected; detected after the status invariant "Computed => matrices of a computed part" was added to the transpose() contracts',
 'C16-c1': 'first UNDECIDED (std::map::empty had no model); detected after the model was added (root always broadcasts both vectors) -- the cross-rank hang itself is outside the per-rank model',
 'C18-c1': "first NOT detected (reference member modelled as embedded object); detected after the IndexClassification constructor was put under contract: the member IS the caller's site map",
 'C03-c1': 'first UNDECIDED (isDiagonal/diagonal/setIdentity had no model); detected after the dense vocabulary was added (eigenvalues of a computed block are ascending)',
 'C09-c2': 'C09 check passes (truncation is the subject of C19); detected by the C19 check',
 'C01-d1': "wave 4; first UNDECIDED (the function became recursive; the long overload was printed under the complex overload's name); detected after the typed overload rename and the enforce-contract-rec retry. Only the complex build changes its values",
 'C07-d1': 'wave 4; first NOT detected (reference member modelled as embedded object); detected by the generated link-member assertion h_links_symm',
 'C09-d2': 'wave 4; first UNDECIDED (HamiltonianPart::getMatrixElement(m,n) had no model in specs/averages.c); detected after the model was added',
 'C03-d1': 'wave 4; UNDECIDED: a function-local static object is not printable as C (extraction break of getEigenValues)',
 'C03-d2': 'wave 4; UNDECIDED: first missing vocabulary (map::size), then the solver ran out of memory on h_HP_prepare for the changed body',
 'C10-d2': 'wave 4; first UNDECIDED (BlockNumber::operator== was not extracted in specs/fieldop.c)',
 'C10-d1': 'wave 4; a rank-dependent change (rank != 0 computes nothing): caught by the per-rank contract of FieldOperator::compute, which holds for every rank',
}
for d in sorted(glob.glob(os.path.join(V, 'seeded', 'C*-*'))):
    sid = os.path.basename(d)
    meta = json.load(open(os.path.join(d, 'meta.json'))) if os.path.exists(os.path.join(d, 'meta.json')) else {}
    det = json.load(open(os.path.join(d, 'detection.json'))) if os.path.exists(os.path.join(d, 'detection.json')) else {}
    conf = open(os.path.join(d, 'confirmation.txt')).read() if os.path.exists(os.path.join(d, 'confirmation.txt')) else ''
    confirmed = ('demo on unchanged tree: exit 0' in conf and 'tests with change: 100% tests passed' in conf and 'demo with change: exit' in conf and 'NOT failing' not in conf)
    detected_by = [p for p, r in det.items() if r['exit'] == 1]
    undecided = [p for p, r in det.items() if r['exit'] == 2]
    passed = [p for p, r in det.items() if r['exit'] == 0]
    obl = []
    for p, r in det.items():
        for l in r['lines']:
            m = re.search(r'failed obligation: (\S+)', l)
            if m and m.group(1) not in obl: obl.append(m.group(1))
    files = meta.get('files', [])
    summ = (meta.get('summary') or '')[:160].replace('|', '/').replace('\n', ' ')
    # move the bulky per-seed meta into a normalised form
    nm = dict(property=sid.split('-')[0], summary=meta.get('summary'), what_it_needs_to_manifest=meta.get('what_it_needs_to_manifest'), files=files,
              confirmed_by_me=confirmed, confirmation=conf.strip().split('\n')[:3], checks_run={p: r['exit'] for p, r in det.items()},
              detected_by=detected_by, failed_obligations=obl[:6])
    json.dump(nm, open(os.path.join(d, 'result.json'), 'w'), indent=1)
    if not det: pass
    index.append(dict(evaluated=bool(det), note=NOTES.get(sid, ''), id=sid, property=sid.split('-')[0], confirmed=confirmed, detected_by=detected_by, undecided=undecided, not_detected=passed))
    note = NOTES.get(sid, '')
    if not det: continue
    rows.append('| %s | %s | %s | %s | %s | %s |' % (sid, summ, 'yes' if confirmed else 'seeder only', ', '.join(detected_by) or ('UNDECIDED ' + ','.join(undecided) if undecided else 'NOT detected'), '; '.join(obl[:3]), note))
json.dump(index, open(os.path.join(V, 'seeded', 'INDEX.json'), 'w'), indent=1)
open(os.path.join(V, 'seeded', 'TABLE.md'), 'w').write('| seeded change | what it does | confirmed (tests pass, demo fails) | detected by check | failing obligations | note |\n|---|---|---|---|---|---|\n' + '\n'.join(rows) + '\n')
ev = [x for x in index if x['evaluated']]
print(len(index), 'seeds,', len(ev), 'evaluated:', sum(1 for x in ev if x['detected_by']), 'detected;', sum(1 for x in ev if not x['detected_by'] and x['undecided']), 'undecided;', sum(1 for x in ev if not x['detected_by'] and not x['undecided']), 'not detected')
