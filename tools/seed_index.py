#!/usr/bin/env python3
"""build seeded/INDEX.json and a markdown detection table from seeded/*/meta.json, detection.json, confirmation.txt"""
import json, os, glob, re
V = os.path.dirname(os.path.dirname(os.path.abspath(__file__)))
rows = []; index = []
NOTES = {
 'C01-b2': 'wave 2; detected after the GreensFunction copy constructor was put under contract (round 3) in response to this change',
 'C09-b1': 'wave 2; detected after the EnsembleAverage copy constructor was put under contract (round 3)',
 'C14-b2': 'wave 2; detected by the Susceptibility copy-constructor contract (round 3)',
 'C02-b1': 'wave 2; first UNDECIDED (the 3-argument call broke extraction); detected after a model of the 3-argument TermList call operator was added (records the documented default 1e-16)',
 'C02-b2': 'wave 2; detected after ResonantTerm::IsNegligible was pinned (round 3)',
 'C04-b1': 'wave 2; first UNDECIDED (call of another NupNdown overload had no stub); detected after stubs for all factory overloads were added (completeness obligation of addCoulombS)',
 'C05-b2': 'wave 2; detected after the two-argument N/Sz::getMatrixElement were put under contract (round 3)',
 'C07-b1': 'wave 2; UNDECIDED (exit 2): the hash generator type was replaced by a hand-written class -- no model, extraction break',
 'C07-b2': 'wave 2; UNDECIDED (exit 2): new call to floor() inside StatesClassification::compute -- no model, extraction break',
 'C10-b1': 'wave 2; UNDECIDED (exit 2): sparseView/prune called with an extra reference argument -- no model for that overload',
 'C04-b2': 'wave 2; C04 check passes (Operator is a recording monitor there); detected by the C05 bounded normal-ordering harnesses',

 'C15-b1': 'wave 2; first NOT detected (the Vertex4 constructor was not under contract: reference members bound crosswise)',
 'C16-b1': 'wave 2; first NOT detected (the MPIMaster constructors were not under contract: Master_wf was read off the constructor)',
 'C16-b2': 'wave 2; first NOT detected (same gap: Comm of the master was not tied to the constructor argument)',
 'C18-b1': 'wave 2; UNDECIDED (exit 2): std::map::lower_bound had no model',

 'C16-2': 'not detected: needs a message to arrive between the posted receive and the member initialisation -- a schedule, outside the sequential per-rank model (C16 claim says so)',
 'C16-1': 'UNDECIDED: the h_order_worker harness runs out of 30 GB of solver memory on the changed code (no obligation passes or fails)',
 'C05-1': 'UNDECIDED (exit 2): the function was restructured (new call ket.count(), one loop removed) -- extraction break, by design not a violation',
 'C03-1': 'UNDECIDED (exit 2): computeGroundEnergy restructured (std::min, different loop) -- the woven spec no longer compiles',
 'C09-1': 'C09 check passes (its contract REQUIRES eigenvalues >= ground energy, which is C03\'s post-condition); the C03 check is UNDECIDED (function restructured, extraction break)',
 'C10-2': 'UNDECIDED (exit 2): .transpose() has no model; the change is a no-op in the real-valued build that is verified (breaks the property only with -DPOMEROL_COMPLEX_MATRIX_ELEMENTS)',
 'C04-1': 'detected after the 8-argument addHopping was given its own contract (h_addHopping8) in response to this change',
 'C04-2': 'detected after addCoulombP was put under contract (round 2) in response to this change',
 'C01-2': 'detected after GFContainer::createElement was put under contract (specs/containers.c) in response to this change',
 'C14-2': 'detected after EnsembleAverage::prepare was put under contract (specs/ensavg.c) in response to this change',
 'C09-2': 'detected after EnsembleAverage::prepare was put under contract (specs/ensavg.c)',
 'C10-1': 'detected after the three operator prepare() functions were put under contract (specs/fieldopprep.c) in response to this change',
 'C02-1': 'detected through the TermList<T>::add_term template proof (specs/termlist.c, single-particle instantiation) after that harness was tagged for C02',
 'C17-3': 'detected by the C15 harnesses; they are now also tagged C17',
 'C19-1': 'first run UNDECIDED because the min_obl guard was evaluated before the failures; check fixed, now detected',
}
for d in sorted(glob.glob(os.path.join(V, 'seeded', 'C*-*'))):
    sid = os.path.basename(d)
    meta = json.load(open(os.path.join(d, 'meta.json'))) if os.path.exists(os.path.join(d, 'meta.json')) else {}
    det = json.load(open(os.path.join(d, 'detection.json'))) if os.path.exists(os.path.join(d, 'detection.json')) else {}
    conf = open(os.path.join(d, 'confirmation.txt')).read() if os.path.exists(os.path.join(d, 'confirmation.txt')) else ''
    confirmed = ('demo on unchanged tree: exit 0' in conf and 'tests with change: 100% tests passed' in conf and 'demo with change: exit' in conf and 'NOT failing' not in conf)
    detected_by = [p for p, r in det.items() if r['exit'] == 1]
    undecided = [p for p, r in det.items() if r['exit'] == 2]
    passed = [p for p, r in det.items() if r['exit'] == 0]
    obl = []
    for p, r in det.items():
        for l in r['lines']:
            m = re.search(r'failed obligation: (\S+)', l)
            if m and m.group(1) not in obl: obl.append(m.group(1))
    files = meta.get('files', [])
    summ = (meta.get('summary') or '')[:160].replace('|', '/').replace('\n', ' ')
    # move the bulky per-seed meta into a normalised form
    nm = dict(property=sid.split('-')[0], summary=meta.get('summary'), what_it_needs_to_manifest=meta.get('what_it_needs_to_manifest'), files=files,
              confirmed_by_me=confirmed, confirmation=conf.strip().split('\n')[:3], checks_run={p: r['exit'] for p, r in det.items()},
              detected_by=detected_by, failed_obligations=obl[:6])
    json.dump(nm, open(os.path.join(d, 'result.json'), 'w'), indent=1)
    if not det: pass
    index.append(dict(evaluated=bool(det), note=NOTES.get(sid, ''), id=sid, property=sid.split('-')[0], confirmed=confirmed, detected_by=detected_by, undecided=undecided, not_detected=passed))
    note = NOTES.get(sid, '')
    if not det: continue
    rows.append('| %s | %s | %s | %s | %s | %s |' % (sid, summ, 'yes' if confirmed else 'seeder only', ', '.join(detected_by) or ('UNDECIDED ' + ','.join(undecided) if undecided else 'NOT detected'), '; '.join(obl[:3]), note))
json.dump(index, open(os.path.join(V, 'seeded', 'INDEX.json'), 'w'), indent=1)
open(os.path.join(V, 'seeded', 'TABLE.md'), 'w').write('| seeded change | what it does | confirmed (tests pass, demo fails) | detected by check | failing obligations | note |\n|---|---|---|---|---|---|\n' + '\n'.join(rows) + '\n')
ev = [x for x in index if x['evaluated']]
print(len(index), 'seeds,', len(ev), 'evaluated:', sum(1 for x in ev if x['detected_by']), 'detected;', sum(1 for x in ev if not x['detected_by'] and x['undecided']), 'undecided;', sum(1 for x in ev if not x['detected_by'] and not x['undecided']), 'not detected')
