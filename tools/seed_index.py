#!/usr/bin/env python3
"""build seeded/INDEX.json and a markdown detection table from seeded/*/meta.json, detection.json, confirmation.txt"""
import json, os, glob, re
V = os.path.dirname(os.path.dirname(os.path.abspath(__file__)))
rows = []; index = []
for d in sorted(glob.glob(os.path.join(V, 'seeded', 'C*-*'))):
    sid = os.path.basename(d)
    meta = json.load(open(os.path.join(d, 'meta.json'))) if os.path.exists(os.path.join(d, 'meta.json')) else {}
    det = json.load(open(os.path.join(d, 'detection.json'))) if os.path.exists(os.path.join(d, 'detection.json')) else {}
    conf = open(os.path.join(d, 'confirmation.txt')).read() if os.path.exists(os.path.join(d, 'confirmation.txt')) else ''
    confirmed = ('demo on unchanged tree: exit 0' in conf and 'tests with change: 100% tests passed' in conf and 'demo with change: exit' in conf and 'NOT failing' not in conf)
    detected_by = [p for p, r in det.items() if r['exit'] == 1]
    undecided = [p for p, r in det.items() if r['exit'] == 2]
    passed = [p for p, r in det.items() if r['exit'] == 0]
    obl = []
    for p, r in det.items():
        for l in r['lines']:
            m = re.search(r'failed obligation: (\S+)', l)
            if m and m.group(1) not in obl: obl.append(m.group(1))
    files = meta.get('files', [])
    summ = (meta.get('summary') or '')[:160].replace('|', '/').replace('\n', ' ')
    # move the bulky per-seed meta into a normalised form
    nm = dict(property=sid.split('-')[0], summary=meta.get('summary'), what_it_needs_to_manifest=meta.get('what_it_needs_to_manifest'), files=files,
              confirmed_by_me=confirmed, confirmation=conf.strip().split('\n')[:3], checks_run={p: r['exit'] for p, r in det.items()},
              detected_by=detected_by, failed_obligations=obl[:6])
    json.dump(nm, open(os.path.join(d, 'result.json'), 'w'), indent=1)
    index.append(dict(id=sid, property=sid.split('-')[0], confirmed=confirmed, detected_by=detected_by, undecided=undecided, not_detected=passed))
    rows.append('| %s | %s | %s | %s | %s |' % (sid, summ, 'yes' if confirmed else 'seeder only', ', '.join(detected_by) or ('UNDECIDED ' + ','.join(undecided) if undecided else 'NOT detected'), '; '.join(obl[:3])))
json.dump(index, open(os.path.join(V, 'seeded', 'INDEX.json'), 'w'), indent=1)
open(os.path.join(V, 'seeded', 'TABLE.md'), 'w').write('| seeded change | what it does | confirmed (tests pass, demo fails) | detected by check | failing obligations |\n|---|---|---|---|---|\n' + '\n'.join(rows) + '\n')
print(len(rows), 'seeds;', sum(1 for x in index if x['detected_by']), 'detected;', sum(1 for x in index if not x['detected_by'] and x['undecided']), 'undecided;', sum(1 for x in index if not x['detected_by'] and not x['undecided']), 'missed')
