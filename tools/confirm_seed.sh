#!/bin/sh
# confirm_seed.sh <seed dir>...   -- independent confirmation of seeded changes in a scratch worktree (never /repo):
#   (1) demo passes on the unchanged tree, (2) the 20 tests pass with the change, (3) the demo fails with the change.
# Appends the result to <seed dir>/confirmation.txt
WT=/var/tmp/wt-confirm
DIRS=""; for d in "$@"; do DIRS="$DIRS $(readlink -f $d)"; done
export OMPI_ALLOW_RUN_AS_ROOT=1 OMPI_ALLOW_RUN_AS_ROOT_CONFIRM=1 LD_LIBRARY_PATH=/var/tmp/wt-confirm/_build
git -C /repo worktree remove --force $WT 2>/dev/null
git -C /repo worktree add --detach $WT HEAD >/dev/null 2>&1 || exit 3
cd $WT && cmake -G Ninja -B _build -DCMAKE_BUILD_TYPE=RelWithDebInfo -DTesting=ON . >/dev/null 2>&1 && cmake --build _build -j6 >/dev/null 2>&1 || { echo "baseline build failed"; exit 3; }
for d in $DIRS; do
  out=$d/confirmation.txt; : > $out
  cd $WT && git checkout -q -- . && cmake --build _build -j6 >/dev/null 2>&1
  if ROOT=$WT W=$WT sh $d/demo.sh $WT >$d/.demo_unchanged.log 2>&1; then echo "demo on unchanged tree: exit 0 (pass)" >> $out; else echo "demo on unchanged tree: FAILS (exit $?)" >> $out; fi
  if git apply $d/patch.diff 2>>$out; then
    if cmake --build _build -j6 >$d/.build.log 2>&1; then
      t=$(ctest --test-dir _build -j6 --timeout 900 2>&1 | grep "tests passed" ); echo "tests with change: $t" >> $out
      if ROOT=$WT W=$WT sh $d/demo.sh $WT >$d/.demo_changed.log 2>&1; then echo "demo with change: exit 0 (NOT failing)" >> $out; else echo "demo with change: exit $? (fails)" >> $out; fi
    else echo "build with change FAILED" >> $out; fi
  else echo "patch does not apply" >> $out; fi
  tail -n 3 $d/.demo_changed.log >> $out 2>/dev/null
  rm -f $d/.build.log $d/demo.bin
  echo "== $d"; cat $out
done
cd / && git -C /repo worktree remove --force $WT
