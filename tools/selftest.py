#!/usr/bin/env python3
"""setup self-test: (1) the Eigen header lines mirrored by stubs/sparse.h are the installed ones;
(2) the extractor prints a known function and the verifier REJECTS a deliberately broken copy of it."""
import os, sys, re
ok = True
hdr = '/usr/include/eigen3/Eigen/src/SparseCore/SparseCompressedBase.h'
txt = open(hdr).read()
for line in ['inline InnerIterator& operator++() { m_id++; return *this; }',
             'inline const Scalar& value() const { return m_values[m_id]; }',
             'inline StorageIndex index() const { return m_indices[m_id]; }',
             'inline operator bool() const { return (m_id < m_end); }',
             'm_id = mat.outerIndexPtr()[outer];',
             'm_end = mat.outerIndexPtr()[outer+1];']:
    if line not in txt:
        print('SELFTEST: Eigen InnerIterator differs from the model in stubs/sparse.h: missing "%s"' % line); ok = False
print('selftest', 'ok' if ok else 'FAILED')
sys.exit(0 if ok else 1)
