#!/usr/bin/env python3
"""gen_normalorder.py [--check]
Rewrites the block of //@harness lines between `//@GENERATED-BEGIN` and `//@GENERATED-END` in specs/normalorder.c
(the spec file stays the single source for ./check).  --check: exit 1 if the block on disk differs from what would be generated.

Operator strings: one hexadecimal digit per factor, leftmost factor first; digit = mode + 8 for a creation operator.
   0x819 = c^+_0 c_1 c^+_1

quick tier
  h_no_L<len>_<hex>           normalize_and_insert on ONE string: all strings of length <= 3 over 2 modes + a selection of length 4
  h_mul_<S1>_x_<S2>           operator*= on a*S1, b*S2: all pairs of strings of length <= 1 over 2 modes + selected longer / two-term operands
  h_comm_<S1>_<S2>            getCommutator / getAntiCommutator: all pairs of single factors over 2 modes (the CAR instances) + selected
  h_assoc_<S1>_<S2>_<S3>      (A*B)*C == A*(B*C): selected triples
tier=thorough
  h_no_L<len>_P<hex>_M3       batches: prefix P followed by every choice of the last (up to) two factors over 3 modes
                              = ALL strings of length <= 4 over 3 modes;
  h_no_L5_P<hex>_M2           ALL strings of length 5 over 2 modes (prefix of 3 factors, every choice of the last two)
  h_no_L5_*, h_no_L6_*        selected strings of length 5 and 6 over 3 modes
  h_mul_<S1>_x_all<l2>_M2     S1 (every string of length <= 2 over 2 modes) times every string of length l2 <= 2 over 2 modes
  h_comm_*                    the remaining pairs of single factors over 3 modes
"""
import itertools, os, re, sys
V = os.path.dirname(os.path.dirname(os.path.abspath(__file__)))
SPEC = os.path.join(V, 'specs', 'normalorder.c')
MIN_OBL = 616          # 97 % of the measured obligation count (the same for every harness of the file: all functions are compiled in)

def letters(modes): return [8 + i for i in range(modes)] + list(range(modes))
def strings(length, modes): return [tuple(s) for s in itertools.product(letters(modes), repeat=length)]
def hexs(s): return ''.join('%X' % d for d in s)
def code(s): return '0x' + (hexs(s) or '0')
def pretty(s): return '.'.join(('c+%d' % (d & 7)) if d & 8 else ('c%d' % d) for d in s) or '1'
def tag(s): return 'L%d_%s' % (len(s), hexs(s)) if s else 'L0'
def caps(total, terms=1):       # model capacities: monomial length, number of monomials (both guarded by MODEL BOUND assertions)
    return ['-DMONO_CAP=%dUL' % max(total, 2), '-DMAP_CAP=%dUL' % (4 if total <= 5 and terms == 1 else 8)]

def harness(name, body, defs, bound, tier=None, timeout=120, reach=1):
    l = '//@harness %s enforce=none loops=0 unwind=10 props=C05 defs=%s bounded=%s min_obl=%d reach=%d timeout=%d' % (
        name, ','.join(['-DVERIF_FP_IEEE'] + defs), bound, MIN_OBL, reach, timeout)
    if tier: l += ' tier=' + tier
    return [l, 'void %s(void) { %s; }' % (name, body)]

def no_single(s, tier=None, timeout=120):
    return harness('h_no_' + tag(s), 'run_strings()', ['-DSTR_LEN=%d' % len(s), '-DSTR_CODE=' + code(s)] + caps(len(s)),
                   'string=%s;coefficient=nonzero_integer<=2^20;states=3_modes' % pretty(s), tier, timeout)
def no_batch(length, prefix, modes, timeout=450):
    suffix = length - len(prefix)
    return harness('h_no_L%d_P%s_M%d' % (length, hexs(prefix), modes), 'run_strings()',
                   ['-DSTR_LEN=%d' % length, '-DSTR_CODE=' + code(prefix), '-DSTR_SUFFIX=%d' % suffix, '-DSTR_MODES=%d' % modes] + caps(length),
                   'strings=%s%s;coefficient=nonzero_integer<=2^20;states=3_modes' % (pretty(prefix) + '.' if prefix else '', 'x'.join(['any'] * suffix) + '_over_%d_modes' % modes),
                   'thorough', timeout)
def operands(s1, s2, s1b=None, s2b=None):
    d = ['-DSTR_LEN=%d' % len(s1), '-DSTR_CODE=' + code(s1), '-DSTR2_LEN=%d' % len(s2), '-DSTR2_CODE=' + code(s2)]
    if s1b is not None: d += ['-DSTRB_LEN=%d' % len(s1b), '-DSTRB_CODE=' + code(s1b)]
    if s2b is not None: d += ['-DSTR2B_LEN=%d' % len(s2b), '-DSTR2B_CODE=' + code(s2b)]
    total = max(len(s1), len(s1b or ())) + max(len(s2), len(s2b or ()))
    return d + caps(total, 2 if (s1b is not None or s2b is not None) else 1)
def opname(s, sb): return tag(s) + ('_p_' + tag(sb) if sb is not None else '')
def optext(s, sb): return pretty(s) + ('+' + pretty(sb) if sb is not None else '')
COEF = 'coefficients=a{2,-7},b{-3,-1,2,5};states=3_modes'
def mul(s1, s2, s1b=None, s2b=None, tier=None):
    return harness('h_mul_%s_x_%s' % (opname(s1, s1b), opname(s2, s2b)), 'run_algebra(0)', operands(s1, s2, s1b, s2b),
                   'A=a*(%s),B=b*(%s);%s' % (optext(s1, s1b), optext(s2, s2b), COEF), tier)
def mul_batch(s1, l2, modes):
    return harness('h_mul_%s_x_all%d_M%d' % (tag(s1), l2, modes), 'run_algebra(0)',
                   ['-DSTR_LEN=%d' % len(s1), '-DSTR_CODE=' + code(s1), '-DSTR2_LEN=%d' % l2, '-DSTR2_CODE=0x0', '-DSTR2_SUFFIX=%d' % l2, '-DSTR_MODES=%d' % modes] + caps(len(s1) + l2),
                   'A=a*(%s),B=b*(every_string_of_length_%d_over_%d_modes);%s' % (pretty(s1), l2, modes, COEF), 'thorough', 300)
def comm(s1, s2, s1b=None, s2b=None, tier=None):
    car = len(s1) == 1 and len(s2) == 1 and s1b is None and s2b is None
    return harness('h_comm_%s_%s' % (opname(s1, s1b), opname(s2, s2b)), 'run_algebra(1)', operands(s1, s2, s1b, s2b),
                   'A=a*(%s),B=b*(%s);%s' % (optext(s1, s1b), optext(s2, s2b), COEF), tier, reach=2 if car else 1)

def assoc(s1, s2, s3):
    total = len(s1) + len(s2) + len(s3)
    return harness('h_assoc_%s_%s_%s' % (tag(s1), tag(s2), tag(s3)), 'run_algebra(2)',
                   ['-DSTR_LEN=%d' % len(s1), '-DSTR_CODE=' + code(s1), '-DSTR2_LEN=%d' % len(s2), '-DSTR2_CODE=' + code(s2), '-DSTR3_LEN=%d' % len(s3), '-DSTR3_CODE=' + code(s3)] + caps(total, 2 if total > 4 else 1),
                   'A=a*(%s),B=b*(%s),C=3*(%s);%s' % (pretty(s1), pretty(s2), pretty(s3), COEF))

def H(x): return tuple(int(ch, 16) for ch in x)
# selection of length-4 strings for the quick tier: double contractions, coefficients that merge and cancel, strings that vanish only
# after sorting, number operators, already ordered / fully reversed strings; the last rows use three modes
SEL4 = ['0198', '1098', '0808', '8080', '8091', '9180', '0089', '8180', '0918', '8901', '1098', '0189', '1908', '0819', '9810', '0110',
        '0981', '8019', '1809', '2819', '219A', 'A280', '1A29', '02A8', '2A08', '20A8']
SEL56 = ['210A98', '8091A2', '012A98', '0808A2', '08192A', '10982', '01A98', '80912', '2A1908', '0A1928']

def generate():
    out = []
    # ---------------- quick
    seen = set()
    for L in range(0, 4):
        for s in strings(L, 2): out += no_single(s); seen.add(s)
    for x in SEL4:
        if H(x) not in seen: out += no_single(H(x)); seen.add(H(x))
    short2 = [s for L in (0, 1) for s in strings(L, 2)]
    mseen = set()
    for s1 in short2:
        for s2 in short2: out += mul(s1, s2); mseen.add((s1, s2))
    for a, b in [('80', '91'), ('80', '80'), ('10', '98'), ('01', '98'), ('81', '90'), ('0', '808'), ('098', '1'), ('9', '810')]:
        out += mul(H(a), H(b)); mseen.add((H(a), H(b)))
    out += mul(H('80'), H('80'), H('91'), H('91'))        # N*N on two modes
    out += mul(H('0'), H('8'), H('9'), H('1'))            # (c_0 + c^+_1)*(c^+_0 + c_1)
    out += mul(H('80'), H('9'), H(''), H('1'))            # (n_0 + 1)*(c^+_1 + c_1)
    cseen = set()
    for s1 in strings(1, 2):
        for s2 in strings(1, 2): out += comm(s1, s2); cseen.add((s1, s2))
    for a, b in [('80', '0'), ('80', '8'), ('80', '91'), ('81', '90'), ('80', '81')]:
        out += comm(H(a), H(b))
    out += comm(H('80'), H('81'), H('91'), None)          # [N, c^+_0 c_1] = 0 on two modes
    for a, b, c in [('0', '8', '0'), ('1', '0', '98'), ('0', '1', '98'), ('80', '91', '80'), ('0', '9', '81'), ('1', '9', '1'), ('08', '0', '8'), ('8', '08', '0')]:
        out += assoc(H(a), H(b), H(c))
    # ---------------- thorough
    out += no_batch(1, (), 3); out += no_batch(2, (), 3)
    for p in strings(1, 3): out += no_batch(3, p, 3)
    for p in strings(2, 3): out += no_batch(4, p, 3)
    for p in strings(3, 2): out += no_batch(5, p, 2)          # every string of length 5 over 2 modes
    for x in SEL56: out += no_single(H(x), 'thorough', 300)
    for s1 in [s for L in (0, 1, 2) for s in strings(L, 2)]:
        for l2 in (1, 2): out += mul_batch(s1, l2, 2)
        if (s1, ()) not in mseen: out += mul(s1, (), tier='thorough')
    for s1 in strings(1, 3):
        for s2 in strings(1, 3):
            if (s1, s2) not in cseen: out += comm(s1, s2, tier='thorough')
    return out

def main():
    txt = open(SPEC).read()
    m = re.search(r'(//@GENERATED-BEGIN[^\n]*\n)(.*?)(//@GENERATED-END)', txt, re.S)
    if not m: print('markers not found in', SPEC); return 2
    block = '\n'.join(generate()) + '\n'
    if '--check' in sys.argv:
        same = m.group(2) == block
        print('up to date' if same else 'generated block differs'); return 0 if same else 1
    open(SPEC, 'w').write(txt[:m.start(2)] + block + txt[m.end(2):])
    n = block.count('//@harness'); t = block.count('tier=thorough')
    print('%d harnesses written (%d quick, %d thorough)' % (n, n - t, t))
    return 0

if __name__ == '__main__':
    sys.exit(main())
