#!/usr/bin/env python3
"""Debug aid: condensed view of a clang JSON AST (one or several concatenated top-level objects)."""
import json,sys
def load_all(path):
    txt=open(path).read()
    dec=json.JSONDecoder(); i=0; out=[]
    while True:
        while i<len(txt) and txt[i].isspace(): i+=1
        if i>=len(txt): break
        o,i=dec.raw_decode(txt,i); out.append(o)
    return out
def show(n,d=0):
    if not isinstance(n,dict): return
    k=n.get('kind','?'); t=n.get('type',{}).get('qualType','')
    dt=n.get('type',{}).get('desugaredQualType','')
    extra=[]
    for key in ('name','opcode','castKind','valueCategory','value','isArrow','isPostfix','mangledName'):
        if key in n: extra.append('%s=%s'%(key,n[key]))
    if 'referencedDecl' in n:
        r=n['referencedDecl']; extra.append('ref=%s:%s:%s'%(r.get('kind'),r.get('name'),r.get('type',{}).get('qualType','')))
    if 'referencedMemberDecl' in n: extra.append('member='+n['referencedMemberDecl'])
    print('  '*d+k+' <'+t+('|'+dt if dt else '')+'> '+' '.join(extra))
    for c in n.get('inner',[]): show(c,d+1)
if __name__=='__main__':
    for o in load_all(sys.argv[1]): show(o)
