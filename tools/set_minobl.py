#!/usr/bin/env python3
"""set_minobl.py specs/a.c specs/b.c ... : run every harness of the given spec files and rewrite min_obl= to 97% of the
measured obligation count (only for harnesses that pass)."""
import sys, os, re, json, subprocess, concurrent.futures as cf
V = os.path.dirname(os.path.dirname(os.path.abspath(__file__)))
sys.path.insert(0, os.path.join(V, 'tools'))
import run_cbmc
def weave(spec):
    out = os.path.join(V, 'build', os.path.basename(spec))
    p = subprocess.run([sys.executable, os.path.join(V, 'tools', 'weave.py'), spec, out], capture_output=True, text=True)
    if p.returncode: print('weave failed', spec, p.stdout[-300:]); return None
    return out
jobs = []
for spec in sys.argv[1:]:
    out = weave(spec)
    if not out: continue
    meta = json.load(open(out + '.meta.json'))
    for h in meta['harnesses']:
        if h.get('tier') == 'thorough' and '--all' not in sys.argv: continue
        jobs.append((spec, out, h))
def run(j):
    spec, out, h = j
    r = run_cbmc.run_harness(out, h, os.path.join(V, 'build', 'run', os.path.basename(out)[:-2]))
    return spec, h['name'], r['verdict'], r['obligations'], r['solver_s'], r['reason'][:200]
res = {}
with cf.ThreadPoolExecutor(6) as ex:
    for spec, name, verdict, n, s, reason in ex.map(run, [j for j in jobs if not j[0].startswith('--')]):
        print('%-28s %-34s %-9s %6d %7.1fs %s' % (os.path.basename(spec), name, verdict, n, s, reason))
        if verdict == 'pass': res.setdefault(spec, {})[name] = n
for spec, d in res.items():
    lines = open(spec).read().split('\n')
    for i, l in enumerate(lines):
        if l.startswith('//@harness'):
            name = l.split()[1]
            if name in d:
                m = int(d[name] * 0.97)
                if 'min_obl=' in l: l = re.sub(r'min_obl=\d+', 'min_obl=%d' % m, l)
                else: l += ' min_obl=%d' % m
                lines[i] = l
    open(spec, 'w').write('\n'.join(lines))
