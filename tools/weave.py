#!/usr/bin/env python3
"""
weave: turn a spec file (/verif/specs/<unit>.c) into a C translation unit for CBMC.

A spec file is C text (stub models, spec functions, harnesses) with `//@` markers.  The markers name
functions / records / enums / globals of /repo; each is replaced by C text printed from clang's
typed AST of the *current working tree* (tools/ast2c.py).  Contracts written after a `//@function`
marker are woven into the printed function: the function contract between signature and body, loop
contract k after the header of the k-th loop (tree order).

markers
  //@tu <path relative to /repo | absolute> [filter=<clang ast-dump-filter>] [flags=<extra clang flags>]
  //@type <regex> => <C type> <scalar|val|ptr>
  //@record <C++ qualified record> => <C type> <val|ptr>
  //@rename <Cls_method[/nargs]> => <C name>        //@free <name[(argtypes)]> => <C name>
  //@maythrow <C name> ...
  //@struct <C++ record> [only=a,b,c] [skip=a,b]    (optional extra field lines, then //@end)
  //@enum <name>            //@global <variable> [as <C name>]
  //@function <demangled signature> as <C name>
  //@contract ... //@loop <k> ... //@end
  //@harness <name> enforce=<fn>|none [replace=a,b] [props=C01,C17] [min_obl=N] [unwind=N] [timeout=S]
             [defs=-DX,-DY] [bounded=<text>] [tier=thorough] [reach=<n>] [cbmc=<extra cbmc flags>]
"""
import os, re, sys, json, time
sys.path.insert(0, os.path.dirname(os.path.abspath(__file__)))
import ast2c
from ast2c import ExtractionBreak

VERIF = os.path.dirname(os.path.dirname(os.path.abspath(__file__)))

def parse_kv(tokens):
    kv = {}
    for t in tokens:
        if '=' in t:
            k, v = t.split('=', 1); kv[k] = v
    return kv

class Weaver:
    def __init__(self, workdir):
        self.workdir = workdir
        self.tus = {}
        self.tm = ast2c.TypeMap()
        self.rename = {}; self.free = {}; self.maythrow = []
        self.tu = None
        self.meta = dict(functions=[], harnesses=[], structs=[], clang_cmds=[], dropped={})
    def get_tu(self, path, filt, flags):
        key = (path, filt, tuple(flags))
        if key not in self.tus:
            t0 = time.time()
            self.tus[key] = ast2c.TU(path, self.workdir, filt, flags)
            self.meta['clang_cmds'].append(self.tus[key].cmd)
            # typedefs of the TU feed the type map
            for nid, n in self.tus[key].index.items():
                if n.get('kind') == 'CXXRecordDecl' and n.get('name') and n.get('completeDefinition'):
                    qn = self.tus[key].qualname(n)
                    if qn.startswith('Pomerol::') or qn.startswith('pMPI::'): self.tm.known_records.add(qn)
                if n.get('kind') in ('TypedefDecl', 'TypeAliasDecl') and n.get('name'):
                    u = n['type'].get('desugaredQualType') or n['type'].get('qualType')
                    qn = self.tus[key].qualname(n)
                    full = (qn + '::' if qn else '') + n['name']
                    for nm in {n['name'], full}:
                        self.tm.typedefs.setdefault(nm, u)
        return self.tus[key]
    def printer(self):
        if self.tu is None: raise ExtractionBreak('//@tu missing before use')
        return ast2c.Printer(self.tu, self.tm, dict(rename=self.rename, free=self.free, maythrow=self.maythrow))
    def nested_records(self, rec, only, skip):
        """A record declared INSIDE `rec` that is the type of one of the printed fields and has no `//@type` / `//@record` rule of its own
        (e.g. a local function-object class) is printed in front of the struct, together with its member functions that have bodies
        (the compiler-generated ones included).  These functions have no contract: they are inlined at their calls; loops in them have no
        loop contract, so a harness that reaches one is a bounded counter-example search only (./check)."""
        out = []
        p = self.printer()
        ftypes = set()
        for f in p.all_fields(rec):
            if (only is not None and f['name'] not in only) or f['name'] in skip: continue
            q = f['type'].get('desugaredQualType') or f['type'].get('qualType', '')
            ftypes.add(self.tm.strip_cv(q))
        for nr in rec.get('inner', []):
            if nr.get('kind') != 'CXXRecordDecl' or not nr.get('name') or not nr.get('completeDefinition'): continue
            qn = self.tu.qualname(nr)
            if qn not in ftypes and qn.replace('Pomerol::', '') not in ftypes: continue
            dflt = 'struct ' + re.sub(r'\W+', '_', qn.replace('Pomerol::', '').replace('pMPI::', ''))
            try: c, k = self.tm.lookup(qn)
            except ExtractionBreak: continue
            if c != dflt or qn in self.tm.records or qn.replace('Pomerol::', '') in self.tm.records: continue     # the spec models it
            if qn in getattr(self, 'auto_records', set()): continue
            self.auto_records = getattr(self, 'auto_records', set()) | {qn}
            out += self.nested_records(nr, None, ())
            txt, info = self.printer().struct(nr, c)
            if not any(x.get('kind') == 'FieldDecl' for x in nr.get('inner', [])):
                txt = txt.replace('{', '{\n  char verif_empty_;      /* a class without data members */', 1)
            out.append('/* generated from record %s (nested in %s, printed automatically) */' % (qn, self.tu.qualname(rec))); out.append(txt)
            self.meta['structs'].append(dict(record=qn, cname=c, notes=info + ['nested record printed automatically']))
            nctor = {}
            for fn in self.tu.funcs:
                frec = self.tu.record_of(fn)
                if frec is None or frec.get('id') != nr.get('id'): continue
                pr = self.printer()
                nparams = len([x for x in fn.get('inner', []) if x.get('kind') == 'ParmVarDecl'])
                if fn['kind'] == 'CXXConstructorDecl':
                    if nparams == 1: continue                     # copy / move construction is printed as a struct copy
                    cname = '%s_ctor%d' % (ast2c.short(c), nparams)
                elif fn['kind'] == 'CXXDestructorDecl': continue
                else: cname = pr.method_cname(c, fn['name'], nparams)
                ftxt, finfo = pr.function(fn, cname, '', {})
                out.append('/* generated from a member function of the nested record %s (printed automatically, no contract) */' % qn); out.append(ftxt)
                loc = fn.get('loc', {}); rng = fn.get('range', {})
                self.meta['functions'].append(dict(qual=qn + '::' + fn['name'], cname=cname, tu=self.tu.path, sha=ast2c.sha(ftxt), loops=finfo['loops'],
                                                   loops_with_contract=[], auto_extracted=True, dropped=finfo['dropped'], calls=finfo['calls'],
                                                   has_throw=finfo['has_throw'], line=rng.get('begin', {}).get('line') or loc.get('line')))
        return out
    def weave(self, spec_path):
        lines = open(spec_path).read().split('\n')
        out = []
        i = 0
        while i < len(lines):
            l = lines[i]
            if not l.startswith('//@'):
                out.append(l); i += 1; continue
            toks = l[3:].split()
            cmd = toks[0] if toks else ''
            if cmd == 'tu':
                kv = parse_kv(toks[2:])
                flags = kv.get('flags', '').split(',') if kv.get('flags') else []
                self.tu = self.get_tu(toks[1], kv.get('filter', 'Pomerol::'), flags)
                out.append('/* tu: %s */' % toks[1]); i += 1
            elif cmd in ('type', 'record', 'rename', 'free'):
                m = re.match(r'^//@\w+\s+(.*?)\s*=>\s*(.*)$', l)
                if not m: raise ExtractionBreak('bad marker: ' + l)
                lhs, rhs = m.group(1), m.group(2).strip()
                if cmd == 'type':
                    c, k = rhs.rsplit(None, 1); self.tm.add_rule(lhs, c.strip(), k)
                elif cmd == 'record':
                    c, k = rhs.rsplit(None, 1); self.tm.records[lhs] = (c.strip(), k)
                elif cmd == 'rename': self.rename[lhs] = rhs
                else: self.free[lhs] = rhs
                i += 1
            elif cmd == 'maythrow':
                self.maythrow += toks[1:]; i += 1
            elif cmd == 'include':
                # textual include of another spec fragment (markers processed)
                sub = os.path.join(os.path.dirname(spec_path), toks[1])
                out.append(self.weave(sub)); i += 1
            elif cmd == 'struct':
                kv = parse_kv(toks[2:])
                extra = []
                i += 1
                if i < len(lines) and lines[i].startswith('//@extra'):
                    i += 1
                    while not lines[i].startswith('//@end'): extra.append(lines[i]); i += 1
                    i += 1
                rec = self.tu.find_record(toks[1])
                c, k = self.tm.lookup(toks[1])
                p = self.printer()
                only = kv['only'].split(',') if 'only' in kv else None; skip = kv['skip'].split(',') if 'skip' in kv else ()
                out += self.nested_records(rec, only, skip)
                txt, info = p.struct(rec, c, only=only, skip=skip, extra='\n'.join(extra),
                                     embed=kv['embed'].split(',') if 'embed' in kv else ())
                out.append('/* generated from record %s */' % toks[1]); out.append(txt)
                self.meta['structs'].append(dict(record=toks[1], cname=c, notes=info))
                for l in getattr(p, 'links', []): self.meta.setdefault('links', []).append(dict(l, record=toks[1]))
            elif cmd == 'enum':
                out.append(self.printer().enum(self.tu.find_enum(toks[1]))); i += 1
            elif cmd == 'global':
                cname = toks[3] if len(toks) > 3 and toks[2] == 'as' else None
                v = self.tu.find_var(toks[1])
                txt = self.printer().global_var(v, cname)
                out.append('/* generated from global %s */' % toks[1]); out.append(txt); i += 1
                self.meta['functions'].append(dict(qual='global ' + toks[1], cname=cname or toks[1], tu=self.tu.path, sha=ast2c.sha(txt), loops=0))
            elif cmd in ('function', 'fragment'):
                # //@fragment <signature> path=<i/then|else|body/...> as <C name>: ONE statement of the function printed as a
                # C function of its own (free variables become parameters); the claim is about that statement only
                fpath = None
                if cmd == 'fragment':
                    m = re.match(r'^//@fragment\s+(.*?)\s+path=(\S+)\s+as\s+(\w+)\s*$', l)
                    if not m: raise ExtractionBreak('bad marker: ' + l)
                    qual, fpath, cname = m.group(1), m.group(2), m.group(3)
                else:
                    m = re.match(r'^//@function\s+(.*?)\s+as\s+(\w+)\s*$', l)
                    if not m: raise ExtractionBreak('bad marker: ' + l)
                    qual, cname = m.group(1), m.group(2)
                contract = []; loops = {}; cur = None
                i += 1
                while i < len(lines) and not lines[i].startswith('//@end'):
                    s = lines[i]
                    if s.startswith('//@contract'): cur = contract
                    elif s.startswith('//@loop'):
                        k = int(s.split()[1]); loops[k] = []; cur = loops[k]
                    elif s.startswith('//@'): raise ExtractionBreak('unexpected marker inside //@function: ' + s)
                    elif cur is not None: cur.append(s)
                    i += 1
                i += 1
                fn = self.tu.find_function(qual)
                p = self.printer()
                # VERIF_DROP_LOOPS=<C name>,...: print these functions WITHOUT their loop contracts (the function contract stays).  Used by
                # ./check when the loop contracts of the spec do not apply to the function as it is now (fewer loops, clauses that name
                # locals the body no longer has): such a harness is then only searched for counter-examples, never counted as proved.
                loops_dropped = bool(loops) and bool({cname, re.sub(r'_ctor(\d+)$', r'_init\1', cname)} & {x for x in os.environ.get('VERIF_DROP_LOOPS', '').split(',') if x})   # a constructor is printed as <Class>_initN
                if loops_dropped: loops = {}
                if fpath is not None:
                    txt, info = p.fragment(fn, fpath, cname, '\n'.join(contract), {k: '\n'.join(v) for k, v in loops.items()})
                    qual = qual + ' [statement ' + fpath + ']'
                else:
                    txt, info = p.function(fn, cname, '\n'.join(contract), {k: '\n'.join(v) for k, v in loops.items()})
                loc = fn.get('loc', {}); rng = fn.get('range', {})
                out.append('/* generated from %s (%s) */' % (qual, self.tu.path)); out.append(txt)
                self.meta['functions'].append(dict(qual=qual, cname=cname, tu=self.tu.path, sha=ast2c.sha(txt),
                                                   loops=info['loops'], loops_with_contract=sorted(loops), loop_contracts_dropped=loops_dropped, dropped=info['dropped'],
                                                   calls=info['calls'], has_throw=info['has_throw'],
                                                   line=rng.get('begin', {}).get('line') or loc.get('line')))
            elif cmd == 'harness':
                kv = parse_kv(toks[2:])
                h = dict(name=toks[1], spec=os.path.basename(spec_path))
                h.update(kv)
                self.meta['harnesses'].append(h); i += 1
                out.append('/* harness %s */' % toks[1])
            elif cmd in ('end', 'extra', 'contract', 'loop'):
                raise ExtractionBreak('stray marker ' + l)
            else:
                out.append('/* ' + l[3:] + ' */'); i += 1
        return '\n'.join(out)

def main():
    spec = sys.argv[1]; outc = sys.argv[2]
    workdir = os.path.dirname(os.path.abspath(outc))
    os.makedirs(workdir, exist_ok=True)
    w = Weaver(workdir)
    try:
        txt = w.weave(spec)
    except ExtractionBreak as e:
        print('EXTRACTION-BREAK: %s' % e)
        sys.exit(2)
    txt = txt.replace('#include "../stubs/', '#include "' + os.path.join(VERIF, 'stubs') + '/')   # the woven file may live anywhere
    open(outc, 'w').write(txt)
    json.dump(w.meta, open(outc + '.meta.json', 'w'), indent=1)

if __name__ == '__main__':
    main()
