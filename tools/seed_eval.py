#!/usr/bin/env python3
"""seed_eval.py <dir with patch.diff> <property id> [more property ids...]
Applies a seeded change to a scratch worktree of /repo (never /repo itself), runs ./check <pid> against it with evidence/replays
redirected to a scratch directory, prints which obligations fail.  Writes <dir>/detection.json."""
import sys, os, subprocess, json, shutil, re, time
V = os.path.dirname(os.path.dirname(os.path.abspath(__file__)))
nowrite = '--no-write' in sys.argv
d = os.path.abspath(sys.argv[1]); pids = [a for a in sys.argv[2:] if not a.startswith('--')]
tag = re.sub(r'\W+', '_', d)[-40:] + ('_rg%d' % os.getpid() if nowrite else '')
wt = '/var/tmp/wt-seed-' + tag; out = '/var/tmp/seedout-' + tag
subprocess.run(['git', '-C', '/repo', 'worktree', 'remove', '--force', wt], capture_output=True)
subprocess.run(['git', '-C', '/repo', 'worktree', 'add', '--detach', wt, 'HEAD'], capture_output=True, check=True)
res = {}
try:
    r = subprocess.run(['git', '-C', wt, 'apply', os.path.join(d, 'patch.diff')], capture_output=True, text=True)
    if r.returncode: print('PATCH DOES NOT APPLY', r.stderr); sys.exit(3)
    os.makedirs(out, exist_ok=True)
    # the proof cache is content-addressed (sha of the woven C file + stubs + harness line): spec files the change does not reach hit the
    # cache of the unchanged tree, only the specs whose extracted text changed are re-verified
    env = dict(os.environ, VERIF_REPO=wt, VERIF_OUT=out, VERIF_NO_EXTRAS='1', VERIF_CACHE=os.environ.get('VERIF_CACHE') or os.path.join(V, 'build', 'cache'))
    for pid in pids:
        t0 = time.time()
        r = subprocess.run([os.path.join(V, 'check'), pid, '--jobs', os.environ.get('VERIF_SEED_JOBS', '8')], capture_output=True, text=True, env=env, cwd=V)
        lines = [l for l in r.stdout.split('\n') if l.startswith(('VIOLATION', '  failed obligation', '  clause', 'UNDECIDED', 'PASS', 'FAIL', 'KNOWN'))]
        res[pid] = dict(exit=r.returncode, lines=lines[:30], wall_s=round(time.time() - t0, 1))
        print(pid, 'exit', r.returncode); print('\n'.join(lines[:12]))
    if not nowrite: json.dump(res, open(os.path.join(d, 'detection.json'), 'w'), indent=1)
finally:
    subprocess.run(['git', '-C', '/repo', 'worktree', 'remove', '--force', wt], capture_output=True)
    shutil.rmtree(out, ignore_errors=True)
