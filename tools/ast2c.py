#!/usr/bin/env python3
"""
ast2c: print functions of pomerol's *real* C++ sources as C, from clang's typed AST.

The C++ front end (clang 14, with the flags of the pinned build) parses the translation unit;
this module prints the requested function bodies from that typed tree, node by node, as C that
CBMC accepts.  Nothing here is specific to one function: printing is directed by the *types*
clang reports (see DESIGN.md section 3.1).  A node kind / type / call that has no rule raises
ExtractionBreak, which the driver reports as UNDECIDED (exit 2), never as a violation.
"""
import json, os, re, subprocess, hashlib, sys

REPO = os.environ.get('VERIF_REPO', '/repo')

class ExtractionBreak(Exception):
    pass

# ----------------------------------------------------------------------------------------------
# clang invocation
# ----------------------------------------------------------------------------------------------
def build_include_dir(workdir):
    """first_include.h is produced by cmake from first_include.h.in; use the build's copy if it
    exists, otherwise generate the default (real matrix elements, OpenMP) configuration."""
    d = os.path.join(REPO, '_build', 'include')
    if os.path.exists(os.path.join(d, 'pomerol', 'first_include.h')):
        return d
    d = os.path.join(workdir, 'include')
    os.makedirs(os.path.join(d, 'pomerol'), exist_ok=True)
    with open(os.path.join(d, 'pomerol', 'first_include.h'), 'w') as f:
        f.write('#ifndef __INCLUDE_FIRST_INCLUDE_H_a83f82k\n#define POMEROL_VERSION "1.3"\n'
                '#define POMEROL_USE_OPENMP\n#define POMEROL_CXX11\n#endif\n')
    return d

def clang_flags(workdir, complex_build=False, ndebug=True):
    fl = ['-std=c++11', '-fopenmp', '-Wno-everything',
          '-I' + os.path.join(REPO, 'include'), '-I' + build_include_dir(workdir),
          '-I/usr/include/eigen3',
          '-isystem', '/usr/lib/x86_64-linux-gnu/openmpi/include',
          '-isystem', '/usr/lib/x86_64-linux-gnu/openmpi/include/openmpi']
    if ndebug: fl.append('-DNDEBUG')
    if complex_build: fl.append('-DPOMEROL_COMPLEX_MATRIX_ELEMENTS')
    return fl

def dump_ast(tu_path, workdir, filt, extra_flags=()):
    src = tu_path if os.path.isabs(tu_path) else os.path.join(REPO, tu_path)
    if not os.path.exists(src):
        raise ExtractionBreak('translation unit not found: ' + src)
    cmd = ['clang++'] + clang_flags(workdir) + list(extra_flags) + \
          ['-fsyntax-only', '-Xclang', '-ast-dump=json', '-Xclang', '-ast-dump-filter=' + filt, src]
    p = subprocess.run(cmd, capture_output=True, text=True)
    if p.returncode != 0:
        raise ExtractionBreak('clang failed on %s: %s' % (src, p.stderr[-2000:]))
    return p.stdout, ' '.join(cmd)

def load_all(txt):
    dec = json.JSONDecoder(); i = 0; out = []
    n = len(txt)
    while True:
        while i < n and txt[i].isspace(): i += 1
        if i >= n: break
        o, i = dec.raw_decode(txt, i); out.append(o)
    return out

def demangle(names):
    if not names: return {}
    p = subprocess.run(['c++filt'], input='\n'.join(names), capture_output=True, text=True)
    return dict(zip(names, p.stdout.split('\n')))

# ----------------------------------------------------------------------------------------------
# type strings
# ----------------------------------------------------------------------------------------------
BUILTIN = {
 'bool': '_Bool', '_Bool': '_Bool', 'char': 'char', 'signed char': 'signed char', 'unsigned char': 'unsigned char',
 'short': 'short', 'unsigned short': 'unsigned short', 'int': 'int', 'unsigned int': 'unsigned int',
 'unsigned': 'unsigned int',
 'long': 'long', 'unsigned long': 'unsigned long', 'long long': 'long long',
 'unsigned long long': 'unsigned long long', 'float': 'float', 'double': 'double',
 'long double': 'long double', 'void': 'void', 'size_t': 'unsigned long', 'std::size_t': 'unsigned long',
 'std::ptrdiff_t': 'long', 'ptrdiff_t': 'long',
}
SCALAR_C = set(BUILTIN.values()) - {'void'}
# library types that have a model in stubs/common.h (used by TypeMap.lookup when no rule of the spec matches)
STD_TYPES = [(r'std::hash<double>', 'StdHashD', 'ptr')]
# std:: functions on doubles that have a model in stubs/common.h (used by e_CallExpr when the spec gives no //@free rule)
STD_DOUBLE_FREE = {'floor(double)': 'd_floor', 'ceil(double)': 'd_ceil', 'real(double)': 'd_real', 'imag(double)': 'd_imag',
                   'min(double,double)': 'd_min', 'max(double,double)': 'd_max',
                   # <complex> free functions on the cplx model (stubs/cplx.h); a `//@free abs(cplx) => ...` rule of the spec has priority
                   'real(cplx)': 'c_real', 'imag(cplx)': 'c_imag', 'conj(cplx)': 'c_conj', 'norm(cplx)': 'c_norm', 'abs(cplx)': 'c_abs',
                   'arg(cplx)': 'c_arg', 'abs(double)': 'd_abs'}

def split_top(s, sep=','):
    out = []; depth = 0; cur = ''
    for ch in s:
        if ch in '<([': depth += 1
        elif ch in '>)]': depth -= 1
        if ch == sep and depth == 0:
            out.append(cur.strip()); cur = ''
        else: cur += ch
    if cur.strip(): out.append(cur.strip())
    return out

def fn_type_parts(q):
    """'R (A, B) const' -> (R, [A,B])  for a function type string."""
    depth = 0
    # a conditional exception specification `noexcept(expr)` is not the parameter list
    m = re.search(r'\)\s*((const|volatile|&|&&)\s*)*noexcept\s*\(', q)
    if m: q = q[:m.start() + 1]
    # find the last top-level '(' ... ')' group (parameters)
    end = q.rfind(')')
    if end < 0: return q, []
    i = end; depth = 0
    while i >= 0:
        if q[i] == ')': depth += 1
        elif q[i] == '(':
            depth -= 1
            if depth == 0: break
        i -= 1
    ret = q[:i].strip()
    params = q[i+1:end].strip()
    if params in ('', 'void'): return ret, []
    return ret, split_top(params)

class TypeMap:
    """C++ type string -> (C type, kind). kind: 'scalar', 'val' (small struct passed by value),
    'ptr' (object passed by address)."""
    def __init__(self):
        self.rules = []      # (compiled regex, cname, kind)
        self.typedefs = {}   # sugar name -> underlying C++ type string
        self.records = {}    # qualified C++ record name -> (cname, kind)
        self.embedded = set()   # (record qualname, field): reference members modelled as embedded objects
        self.known_records = set()   # qualified names of records defined in the TUs (default: struct <Name>, ptr)
    def add_rule(self, rx, cname, kind):
        self.rules.append((re.compile('^(?:' + rx + ')$'), cname, kind))
    @staticmethod
    def strip_cv(s):
        s = s.strip()
        changed = True
        while changed:
            changed = False
            for pre in ('const ', 'volatile ', 'struct ', 'class ', 'typename ', 'enum '):
                if s.startswith(pre): s = s[len(pre):].strip(); changed = True
            for suf in (' const', ' volatile'):
                if s.endswith(suf): s = s[:-len(suf)].strip(); changed = True
        return s
    def core(self, q):
        """returns (core, derefs) where derefs is a string of '*' / '&' from the outside in."""
        q = q.strip(); mods = ''
        while True:
            q = q.strip()
            if q.endswith('&&'): mods += '&'; q = q[:-2]; continue
            if q.endswith('&'): mods += '&'; q = q[:-1]; continue
            if q.endswith('*const'): mods += '*'; q = q[:-6]; continue
            if q.endswith('* const'): mods += '*'; q = q[:-7]; continue
            if q.endswith('*'): mods += '*'; q = q[:-1]; continue
            break
        return self.strip_cv(q), mods
    def lookup(self, core):
        core = self.strip_cv(core)
        if core in BUILTIN: return BUILTIN[core], 'scalar'
        for rx, cname, kind in self.rules:
            if rx.match(core): return cname, kind
        for cand in (core, core.replace('Pomerol::', ''), 'Pomerol::' + core, 'pMPI::' + core):
            if cand in self.records: return self.records[cand]
        for cand in (core, 'Pomerol::' + core, 'pMPI::' + core):
            if cand in self.known_records:
                return 'struct ' + re.sub(r'\W+', '_', cand.replace('Pomerol::', '').replace('pMPI::', '')), 'ptr'
        for cand in (core, 'Pomerol::' + core, core.replace('Pomerol::', ''), 'pMPI::' + core):
            if cand in self.typedefs and self.typedefs[cand] != core:
                return self.resolve(self.typedefs[cand])
        m = re.match(r'^(.*)\[(\d*)\]$', core)
        for rx, cname, kind in STD_TYPES:          # library types with a model in stubs/common.h (the spec's own rules come first)
            if re.match('^(?:' + rx + ')$', core): return cname, kind
        raise ExtractionBreak('no C model for type "%s"' % core)
    def resolve(self, q):
        """full: returns (ctype string, kind) -- pointers/references become pointers (kind 'scalar' for the pointer itself)"""
        core, mods = self.core(q)
        m = re.match(r'^(.*?)\s*\[(\d+)\]$', core)
        if m and not mods:
            c, k = self.resolve(m.group(1))
            return c + '[' + m.group(2) + ']', 'array'
        c, k = self.lookup(core)
        if mods:
            return c + ' ' + '*' * len(mods), 'scalar'
        return c, k

# ----------------------------------------------------------------------------------------------
# translation unit
# ----------------------------------------------------------------------------------------------
class TU:
    def __init__(self, tu_path, workdir, filt='Pomerol::', extra_flags=()):
        self.path = tu_path
        self.ns = filt.rstrip(':') if filt.endswith('::') else ''
        txt, self.cmd = dump_ast(tu_path, workdir, filt, extra_flags)
        self.tops = load_all(txt)
        self.index = {}; self.parent = {}
        for t in self.tops: self._walk(t, None)
        # functions with bodies
        self.funcs = []
        names = set()
        for nid, n in self.index.items():
            if n.get('kind') in ('FunctionDecl', 'CXXMethodDecl', 'CXXConstructorDecl', 'CXXConversionDecl', 'CXXDestructorDecl') \
               and any(c.get('kind') == 'CompoundStmt' for c in n.get('inner', [])) and 'mangledName' in n:
                self.funcs.append(n); names.add(n['mangledName'])
        dm = demangle(sorted(names))
        self.by_qual = {}
        for f in self.funcs:
            self.by_qual.setdefault(dm.get(f['mangledName'], f['mangledName']), f)
    def _walk(self, n, par):
        if not isinstance(n, dict): return
        if 'id' in n and n.get('kind'):
            # the same decl can be dumped several times (namespace + itself); keep the fullest
            old = self.index.get(n['id'])
            if old is None or len(old.get('inner', [])) < len(n.get('inner', [])):
                self.index[n['id']] = n
            if par is not None: self.parent.setdefault(n['id'], par)
        for c in n.get('inner', []): self._walk(c, n)
    def find_function(self, qual):
        if qual in self.by_qual: return self.by_qual[qual]
        cands = [q for q in self.by_qual if q.replace(' ', '') == qual.replace(' ', '')]
        if len(cands) == 1: return self.by_qual[cands[0]]
        near = [q for q in self.by_qual if qual.split('(')[0].split('::')[-1] in q]
        raise ExtractionBreak('function "%s" not found in %s; similar: %s' % (qual, self.path, near[:8]))
    def record_of(self, decl):
        """enclosing record (CXXRecordDecl / ClassTemplateSpecializationDecl) of a member decl"""
        n = decl
        if 'parentDeclContextId' in n and n['parentDeclContextId'] in self.index:
            return self.index[n['parentDeclContextId']]
        p = self.parent.get(n.get('id'))
        while p is not None and p.get('kind') not in ('CXXRecordDecl', 'ClassTemplateSpecializationDecl'):
            p = self.parent.get(p.get('id'))
        return p
    def is_template_record(self, rec):
        if rec.get('kind') == 'ClassTemplateSpecializationDecl': return True
        n = rec
        while n is not None:
            if n.get('kind') in ('ClassTemplateDecl', 'ClassTemplateSpecializationDecl', 'ClassTemplatePartialSpecializationDecl'): return True
            n = self.parent.get(n.get('id'))
        return False
    def qualname(self, decl):
        parts = []
        n = decl
        while n is not None:
            if n.get('kind') in ('CXXRecordDecl', 'ClassTemplateSpecializationDecl', 'NamespaceDecl', 'EnumDecl') and n.get('name'):
                parts.append(n['name'])
            if 'parentDeclContextId' in n and n['parentDeclContextId'] in self.index:
                n = self.index[n['parentDeclContextId']]
            else:
                n = self.parent.get(n.get('id'))
        q = '::'.join(reversed(parts))
        if self.ns and q != self.ns and not q.startswith(self.ns + '::'):
            q = self.ns + ('::' + q if q else '')
        return q
    def find_record(self, qual):
        best = None
        base = qual.split('<')[0]
        targs = [a.replace(' ', '') for a in split_top(qual[len(base) + 1:qual.rfind('>')])] if '<' in qual else None
        for nid, n in self.index.items():
            if n.get('kind') in ('CXXRecordDecl', 'ClassTemplateSpecializationDecl') and n.get('name') == base.split('::')[-1] \
               and n.get('completeDefinition'):
                q = self.qualname(n)
                if q == base or q == 'Pomerol::' + base:
                    if targs is not None:
                        # `Cls<Args>`: the compiler's instantiation with exactly these template arguments
                        if n.get('kind') != 'ClassTemplateSpecializationDecl': continue
                        have = [c.get('type', {}).get('qualType', c.get('value', '')).replace(' ', '') for c in n.get('inner', []) if c.get('kind') == 'TemplateArgument']
                        if have != targs: continue
                    best = n
                    if any(c.get('kind') == 'FieldDecl' for c in n.get('inner', [])): return n
        if best is None: raise ExtractionBreak('record "%s" not found in %s' % (qual, self.path))
        return best
    def find_enum(self, qual):
        if qual.endswith('::'):
            for nid, n in self.index.items():
                if n.get('kind') == 'EnumDecl' and not n.get('name'):
                    par = self.parent.get(nid)
                    if par is not None and par.get('name') == qual[:-2].split('::')[-1]: return n
            raise ExtractionBreak('anonymous enum in "%s" not found' % qual)
        if '::' in qual:     # qualified name: several classes may declare an enum of the same name (Operator::op_type, Lattice::Term::op_type)
            for nid, n in self.index.items():
                if n.get('kind') == 'EnumDecl' and n.get('name') == qual.split('::')[-1]:
                    q = self.qualname(n)
                    if q == qual or q.endswith('::' + qual): return n
            raise ExtractionBreak('enum "%s" not found' % qual)
        for nid, n in self.index.items():
            if n.get('kind') == 'EnumDecl' and n.get('name') == qual.split('::')[-1]:
                return n
        raise ExtractionBreak('enum "%s" not found' % qual)
    def find_var(self, name):
        for nid, n in self.index.items():
            if n.get('kind') == 'VarDecl' and n.get('name') == name and any('kind' in c and (c['kind'].endswith('Expr') or c['kind'] in TRANSPARENT) for c in n.get('inner', [])):
                return n
        raise ExtractionBreak('variable "%s" with initializer not found' % name)

# ----------------------------------------------------------------------------------------------
# printer
# ----------------------------------------------------------------------------------------------
OPNAMES = {
 'operator++': 'inc', 'operator--': 'dec', 'operator()': 'call', 'operator[]': 'at', 'operator bool': 'conv_bool',
 'operator=': 'assign', 'operator==': 'eq', 'operator!=': 'ne', 'operator<': 'lt', 'operator>': 'gt',
 'operator<=': 'le', 'operator>=': 'ge', 'operator+=': 'addassign', 'operator-=': 'subassign',
 'operator*=': 'mulassign', 'operator/=': 'divassign', 'operator*': 'mul', 'operator/': 'div',
 'operator+': 'add', 'operator-': 'sub', 'operator->': 'arrow', 'operator!': 'not', 'operator<<': 'shl',
 'operator>>': 'shr', 'operator&': 'and', 'operator|': 'or', 'operator^': 'xor', 'operator~': 'compl',
 'operator&=': 'andassign', 'operator|=': 'orassign', 'operator^=': 'xorassign', 'operator,': 'comma',
 'operator&&': 'land', 'operator||': 'lor',
}
TRANSPARENT = ('MaterializeTemporaryExpr', 'ExprWithCleanups', 'CXXBindTemporaryExpr', 'ConstantExpr',
               'FullExpr', 'SubstNonTypeTemplateParmExpr')

def sanitize(name):
    if name in OPNAMES: return OPNAMES[name]
    if name.startswith('operator '): return 'conv_' + re.sub(r'\W+', '_', name[9:]).strip('_')
    return re.sub(r'\W+', '_', name)

def short(ct):
    return re.sub(r'\W+', '_', ct.replace('struct ', '').replace('unsigned ', 'u').replace('*', 'p')).strip('_')

def simp_addr(e):
    """&(*x) -> x"""
    e = e.strip()
    if e.startswith('(*') and e.endswith(')'):
        depth = 0
        for i, ch in enumerate(e):
            if ch == '(': depth += 1
            elif ch == ')':
                depth -= 1
                if depth == 0 and i != len(e) - 1: return '&' + e
        return e[2:-1]
    return '&' + e

class Printer:
    def __init__(self, tu, tm, opts=None):
        self.tu = tu; self.tm = tm
        self.opts = opts or {}
        self.rename = self.opts.get('rename', {})       # (cls, method, nargs) or 'cls_method' -> cname
        self.free = self.opts.get('free', {})           # free function map
        self.maythrow = set(self.opts.get('maythrow', []))
        self.dropped = []
        self.loops = 0
        self.loop_contracts = {}
        self.byvalue_params = set()
        self.fn_ret = None
        self.used_loops = set()
        self.calls = []
        self.has_throw = False

    # ---------- types
    def tstr(self, t):
        """node 'type' dict -> C++ type string to resolve"""
        if t is None: return 'void'
        return t.get('qualType', '')
    def ctype(self, t):
        q = t.get('desugaredQualType') or t.get('qualType')
        try:
            return self.tm.resolve(q)
        except ExtractionBreak:
            if t.get('desugaredQualType') and t.get('qualType') != q:
                return self.tm.resolve(t['qualType'])
            raise
    def ctype_q(self, q):
        return self.tm.resolve(q)
    def is_ref(self, q):
        return q.strip().endswith('&')
    def param_mode(self, q):
        """how a parameter of C++ type q is passed in C: 'value' or 'pointer'"""
        q = q.strip()
        if not q.endswith('&'): return 'value'
        inner = q.rstrip('&').strip()
        is_const = inner.startswith('const ') or inner.endswith(' const')
        if q.endswith('&&') and not is_const:
            # rvalue reference to a scalar / small value (move construction/assignment): the value itself
            try:
                c, k = self.tm.resolve(inner)
                if k in ('scalar', 'val'): return 'value'
            except ExtractionBreak:
                pass
        if not is_const: return 'pointer'
        try:
            c, k = self.tm.resolve(inner)
        except ExtractionBreak:
            return 'pointer'      # reference to a dependency (base) class: by address
        return 'value' if k in ('scalar', 'val') else 'pointer'

    # ---------- helpers
    def strip(self, n):
        while n.get('kind') in TRANSPARENT or (n.get('kind') == 'ImplicitCastExpr' and n.get('castKind') in ('NoOp', 'UncheckedDerivedToBase', 'DerivedToBase')) \
              or n.get('kind') == 'ParenExpr':
            n = n['inner'][0]
        return n
    def strip_callee(self, n):
        while n.get('kind') in TRANSPARENT + ('ImplicitCastExpr', 'ParenExpr'):
            n = n['inner'][0]
        return n
    def obj_static_type(self, n):
        """most derived static C++ type of an object expression (implicit base casts stripped)"""
        m = n
        while m.get('kind') in TRANSPARENT or (m.get('kind') == 'ImplicitCastExpr' and m.get('castKind') in ('NoOp', 'UncheckedDerivedToBase', 'DerivedToBase')):
            m = m['inner'][0]
        return m['type']
    def is_stream(self, n):
        t = n.get('type', {})
        s = (t.get('qualType', '') + ' ' + t.get('desugaredQualType', ''))
        return 'basic_ostream' in s or 'std::ostream' in s
    def arg(self, a, pq):
        """print argument a for a parameter of C++ type pq (None = unknown)"""
        if pq is not None:
            mode = self.param_mode(pq)
        else:
            mode = None
        inner = self.strip(a)
        if mode == 'pointer':
            if a.get('valueCategory') in ('prvalue', 'xvalue'):
                # a temporary of scalar / small-value type bound to a reference whose type could not be resolved (e.g. key_type&&): the value
                try:
                    c, k = self.ctype(a['type'])
                    if k in ('scalar', 'val'): return self.expr(a)
                except ExtractionBreak:
                    pass
            return simp_addr(self.expr(a))
        if mode == 'value':
            return self.expr(a)
        # unknown parameter type: decide from the argument
        if a.get('valueCategory') == 'lvalue':
            try:
                c, k = self.ctype(a['type'])
            except ExtractionBreak:
                k = 'ptr'
            if k == 'ptr': return simp_addr(self.expr(a))
            # an unconverted (no LValueToRValue, no NoOp-to-const cast) non-const scalar lvalue binds to a
            # non-const reference parameter (out-parameter, e.g. the buffer of communicator::irecv): by address
            tq = a['type'].get('qualType', '').strip()
            if k == 'scalar' and a.get('kind') in ('DeclRefExpr', 'MemberExpr') and not (tq.startswith('const ') or tq.endswith(' const')):
                return simp_addr(self.expr(a))
        return self.expr(a)
    def args(self, arglist, ptypes):
        out = []
        for i, a in enumerate(arglist):
            if a.get('kind') == 'CXXDefaultArgExpr':
                out.append(self.default_arg(a)); continue
            pq = ptypes[i] if ptypes is not None and i < len(ptypes) else None
            out.append(self.arg(a, pq))
        return out
    def default_arg(self, a):
        raise ExtractionBreak('default argument used (CXXDefaultArgExpr) - not supported')

    # ---------- expressions
    def expr(self, n):
        k = n.get('kind')
        if n.get('id') is not None and n.get('id') in getattr(self, 'subst', {}): return self.subst[n['id']]
        if k in TRANSPARENT: return self.expr(n['inner'][0])
        f = getattr(self, 'e_' + k, None)
        if f is None: raise ExtractionBreak('no rule for expression node ' + str(k))
        return f(n)
    def e_ParenExpr(self, n): return '(' + self.expr(n['inner'][0]) + ')'
    def e_IntegerLiteral(self, n):
        c, _ = self.ctype(n['type']); v = n['value']
        suf = {'unsigned long': 'UL', 'long': 'L', 'unsigned int': 'U', 'long long': 'LL', 'unsigned long long': 'ULL'}.get(c, '')
        return v + suf
    def e_FloatingLiteral(self, n):
        v = n['value']
        if re.match(r'^-?\d+$', v): v += '.0'
        c, _ = self.ctype(n['type'])
        return v + ('f' if c == 'float' else '')
    def e_CXXBoolLiteralExpr(self, n): return '1' if n['value'] else '0'
    def e_CharacterLiteral(self, n): return str(n['value'])
    def e_StringLiteral(self, n): return n['value']
    def e_CXXNullPtrLiteralExpr(self, n): return '((void*)0)'
    def e_GNUNullExpr(self, n): return '0'
    def e_ImplicitValueInitExpr(self, n): return '0'
    def e_CXXScalarValueInitExpr(self, n):
        c, _ = self.ctype(n['type']); return '((%s)0)' % c
    def e_CXXThisExpr(self, n): return 'self'
    def e_DeclRefExpr(self, n):
        r = n['referencedDecl']; name = r.get('name')
        if r['kind'] in ('VarDecl', 'ParmVarDecl'):
            q = r.get('type', {}).get('qualType', '')
            if r['id'] in getattr(self, 'frag_byref', ()): return '(*' + name + ')'
            if self.is_ref(q) and r['id'] not in self.byvalue_params:
                return '(*' + name + ')'
            return name
        if r['kind'] == 'EnumConstantDecl': return name
        if r['kind'] in ('FunctionDecl', 'CXXMethodDecl'): return sanitize(name)
        if r['kind'] == 'BindingDecl': raise ExtractionBreak('structured binding')
        return name
    def field_is_ref(self, n):
        fid = n.get('referencedMemberDecl')
        fd = self.tu.index.get(fid)
        if fd is None: return False
        if (fd.get('name'), self.is_ref(fd.get('type', {}).get('qualType', ''))) == (fd.get('name'), True) and self.embedded_field(fd): return False
        return self.is_ref(fd.get('type', {}).get('qualType', ''))
    def embedded_field(self, fd):
        rec = self.tu.record_of(fd)
        if rec is None: return False
        return (self.tu.qualname(rec), fd.get('name')) in self.tm.embedded
    def e_MemberExpr(self, n):
        b = n['inner'][0]
        # fields of base classes are flattened into the C struct of the derived class
        while b.get('kind') == 'ImplicitCastExpr' and b.get('castKind') in ('UncheckedDerivedToBase', 'DerivedToBase', 'NoOp'):
            b = b['inner'][0]
        be = self.expr(b)
        name = n['name']
        if n.get('isArrow'):
            s = (be + '->' + name) if re.match(r'^[\w>\-\.]+$', be) else '(' + be + ')->' + name
        else:
            if be.startswith('(*') and simp_addr(be) != '&' + be:
                s = simp_addr(be) + '->' + name
            else:
                s = be + '.' + name
        if self.field_is_ref(n): s = '(*' + s + ')'
        return s
    def method_cname(self, cls, name, nargs, args=None):
        base = short(cls) + '_' + sanitize(name)
        # `//@rename Cls_method(ArgType,..) => cname`: an overload told apart by the C types of its arguments (e.g. operator= from a view)
        if args is not None and any(isinstance(k, str) and k.startswith(base + '(') for k in self.rename):
            tys = []
            for a in args:
                # the type of the argument expression itself, not of the base class / const view it is converted to for the parameter
                while a.get('inner') and (a.get('kind') in TRANSPARENT or
                                          (a.get('kind') == 'ImplicitCastExpr' and a.get('castKind') in ('DerivedToBase', 'UncheckedDerivedToBase', 'NoOp'))):
                    a = a['inner'][0]
                try: c, k = self.ctype(a['type']); tys.append(short(c))
                except ExtractionBreak: tys.append('?')
            key = base + '(' + ','.join(tys) + ')'
            if key in self.rename: return self.rename[key]
        for key in ((cls, name, nargs), (short(cls), name, nargs), base + '/%d' % nargs, base):
            if key in self.rename: return self.rename[key]
        return base
    def owner_cls(self, member_id, objnode):
        """C class name used as prefix for a member function call"""
        d = self.tu.index.get(member_id)
        if d is not None:
            rec = self.tu.record_of(d)
            if rec is not None and not self.tu.is_template_record(rec):
                q = self.tu.qualname(rec)
                try:
                    c, k = self.tm.lookup(q)
                    return c
                except ExtractionBreak:
                    pass
        t = self.obj_static_type(objnode)
        q = t.get('desugaredQualType') or t.get('qualType')
        core, mods = self.tm.core(q)
        c, k = self.tm.lookup(core)
        return c
    def method_ptypes(self, member_id):
        d = self.tu.index.get(member_id)
        if d is None: return None
        ret, ps = fn_type_parts(d['type']['qualType'])
        return ps
    def e_CXXMemberCallExpr(self, n):
        callee = n['inner'][0]
        while callee.get('kind') in ('ParenExpr',) + TRANSPARENT: callee = callee['inner'][0]
        if callee.get('kind') != 'MemberExpr':
            raise ExtractionBreak('member call through ' + callee.get('kind'))
        obj = callee['inner'][0]
        name = callee['name']
        args = n['inner'][1:]
        # defaulted trailing arguments are not printed (as for constructors): the stub is the overload with the explicit arguments
        while args and args[-1].get('kind') == 'CXXDefaultArgExpr': args = args[:-1]
        cls = self.owner_cls(callee.get('referencedMemberDecl'), obj)
        ptypes = self.method_ptypes(callee.get('referencedMemberDecl'))
        cname = self.method_cname(cls, name, len(args), args)
        oe = self.expr(obj)
        optr = oe if callee.get('isArrow') else simp_addr(oe)
        al = self.args(args, ptypes)
        self.calls.append(cname)
        s = '%s(%s)' % (cname, ', '.join([optr] + al))
        if n.get('valueCategory') == 'lvalue': s = '(*' + s + ')'
        return s
    def e_CXXOperatorCallExpr(self, n):
        callee = self.strip_callee(n['inner'][0])
        if callee.get('kind') != 'DeclRefExpr': raise ExtractionBreak('operator call through ' + str(callee.get('kind')))
        r = callee['referencedDecl']; opname = r['name']; ops = n['inner'][1:]
        ret, ptypes = fn_type_parts(r['type']['qualType'])
        if r['kind'] == 'CXXMethodDecl':
            obj = ops[0]; rest = ops[1:]
            cls = self.owner_cls(r.get('id'), obj)
            oname = opname
            post = False
            if opname in ('operator++', 'operator--') and len(ops) == 2:
                post = True; rest = []
            cname = self.method_cname(cls, oname, len(rest), rest)
            if post: cname = cname.replace('_inc', '_postinc').replace('_dec', '_postdec')
            al = self.args(rest, ptypes if not post else None)
            self.calls.append(cname)
            s = '%s(%s)' % (cname, ', '.join([simp_addr(self.expr(obj))] + al))
        else:
            tys = []
            for o in ops:
                c, k = self.ctype(o['type']); tys.append(short(c))
            cname = 'op_' + sanitize(opname) + '_' + '_'.join(tys)
            cname = self.rename.get(cname, cname)
            al = self.args(ops, ptypes)
            self.calls.append(cname)
            s = '%s(%s)' % (cname, ', '.join(al))
        if n.get('valueCategory') == 'lvalue': s = '(*' + s + ')'
        return s
    def e_CallExpr(self, n):
        callee = self.strip_callee(n['inner'][0])
        args = n['inner'][1:]
        # defaulted trailing arguments are not printed (as for member calls and constructors): the stub is the overload with the explicit arguments
        while args and args[-1].get('kind') == 'CXXDefaultArgExpr': args = args[:-1]
        if callee.get('kind') != 'DeclRefExpr': raise ExtractionBreak('call through ' + str(callee.get('kind')))
        r = callee['referencedDecl']; name = r['name']
        ret, ptypes = fn_type_parts(r['type']['qualType'])
        tys = []
        for a in args:
            try: c, k = self.ctype(a['type']); tys.append(short(c))
            except ExtractionBreak: tys.append('?')
        cname = None
        # `//@free name~text => cname`: a specialisation of a function template, told apart by a piece of its function type
        # (e.g. boost::get<1>(tuple): `get~element<1UL`)
        for key in self.free:
            if '~' in key and key.split('~', 1)[0] == name and key.split('~', 1)[1] in r['type']['qualType']: cname = self.free[key]
        for key in (name + '(' + ','.join(tys) + ')', name):
            if cname is None and key in self.free: cname = self.free[key]; break
        # <cmath>/<algorithm>/<complex> calls on doubles without a `//@free` rule: the models of stubs/common.h (std:: only: the callee
        # is not a declaration of the extracted namespace)
        if cname is None and self.tu.index.get(r.get('id')) is None:
            cname = STD_DOUBLE_FREE.get(name + '(' + ','.join(tys) + ')')
        if cname is None: cname = sanitize(name)
        d = self.tu.index.get(r.get('id'))
        al = self.args(args, ptypes)
        self.calls.append(cname)
        s = '%s(%s)' % (cname, ', '.join(al))
        if n.get('valueCategory') == 'lvalue': s = '(*' + s + ')'
        return s
    def construct(self, n, args, new=False):
        c, k = self.ctype(n['type'])
        if k == 'scalar' and not new:
            if len(args) == 0: return '((%s)0)' % c
            if len(args) == 1: return '((%s)(%s))' % (c, self.expr(args[0]))
            raise ExtractionBreak('scalar constructed from %d args' % len(args))
        ctor = n.get('ctorType', {}).get('qualType', '')
        ret, ptypes = fn_type_parts(ctor) if ctor else (None, None)
        if not new and len(args) == 1 and ptypes and len(ptypes) == 1:
            # copy / move construction: the value itself
            pc, pm = self.tm.core(ptypes[0])
            try:
                pcn, pk = self.tm.lookup(pc)
            except ExtractionBreak:
                pcn = None
            if pcn == c and pm == '&':
                return self.expr(args[0])
        cname = '%s_%s%d' % (short(c), 'new' if new else 'ctor', len([a for a in args if a.get('kind') != 'CXXDefaultArgExpr']))
        cname = self.rename.get(cname, cname)
        al = self.args([a for a in args if a.get('kind') != 'CXXDefaultArgExpr'], ptypes)
        self.calls.append(cname)
        return '%s(%s)' % (cname, ', '.join(al))
    def e_CXXConstructExpr(self, n): return self.construct(n, n.get('inner', []))
    def e_CXXTemporaryObjectExpr(self, n): return self.construct(n, n.get('inner', []))
    def e_CXXNewExpr(self, n):
        inner = [c for c in n.get('inner', [])]
        if n.get('isArray'): raise ExtractionBreak('new[]')
        if inner and inner[0].get('kind') == 'CXXConstructExpr':
            ce = inner[0]
            return self.construct(ce, ce.get('inner', []), new=True)
        raise ExtractionBreak('new of non-class type')
    def e_CXXDeleteExpr(self, n):
        self.dropped.append('delete'); return '((void)0)'
    def cast(self, n):
        ck = n.get('castKind'); sub = n['inner'][0]
        if n.get('kind') in ('CStyleCastExpr', 'CXXStaticCastExpr', 'CXXFunctionalCastExpr', 'CXXReinterpretCastExpr', 'CXXConstCastExpr'):
            # explicit casts contain the implicit conversion chain as children
            pass
        if ck in ('LValueToRValue', 'NoOp', 'UserDefinedConversion', 'ConstructorConversion', 'FunctionToPointerDecay',
                  'ArrayToPointerDecay', 'BuiltinFnToFnPtr'):
            if n.get('kind') == 'ImplicitCastExpr' or ck != 'NoOp':
                return self.expr(sub)
            # explicit NoOp cast: may still change a typedef'd scalar type
            try:
                c, k = self.ctype(n['type'])
            except ExtractionBreak:
                return self.expr(sub)
            if k == 'scalar' and n.get('valueCategory') == 'prvalue': return '((%s)(%s))' % (c, self.expr(sub))
            return self.expr(sub)
        if ck in ('IntegralCast', 'FloatingCast', 'IntegralToFloating', 'FloatingToIntegral', 'BitCast', 'PointerToIntegral', 'IntegralToPointer'):
            c, k = self.ctype(n['type'])
            return '((%s)(%s))' % (c, self.expr(sub))
        if ck in ('IntegralToBoolean', 'FloatingToBoolean', 'PointerToBoolean'):
            return '((%s) != 0)' % self.expr(sub)
        if ck == 'NullToPointer':
            return '((void*)0)'
        if ck in ('DerivedToBase', 'UncheckedDerivedToBase', 'BaseToDerived'):
            if n.get('valueCategory') == 'lvalue' or n['type'].get('qualType', '').endswith('*'):
                q = n['type'].get('desugaredQualType') or n['type']['qualType']
                try:
                    c, k = self.tm.resolve(q)
                except ExtractionBreak:
                    # base class of a dependency type: the C model of the derived type stands for it
                    return self.expr(sub)
                try:
                    sc, sk = self.ctype(self.obj_static_type(sub)) if q.endswith('*') else self.ctype(sub['type'])
                except ExtractionBreak:
                    sc = None
                if sc == c: return self.expr(sub)
                if q.endswith('*'):
                    return '((%s)(%s))' % (c, self.expr(sub))
                return '(*(%s *)%s)' % (c, simp_addr(self.expr(sub)))
            return self.expr(sub)
        if ck == 'ToVoid': return '((void)(%s))' % self.expr(sub)
        raise ExtractionBreak('cast kind ' + str(ck))
    e_ImplicitCastExpr = cast
    e_CStyleCastExpr = cast
    e_CXXStaticCastExpr = cast
    e_CXXFunctionalCastExpr = cast
    e_CXXReinterpretCastExpr = cast
    e_CXXConstCastExpr = cast
    def is_double(self, n):
        try:
            c, k = self.ctype(n['type'])
        except ExtractionBreak:
            return False
        return c in ('double', 'float', 'long double')
    def e_BinaryOperator(self, n):
        l, r = n['inner']; op = n['opcode']
        le, re_ = self.expr(l), self.expr(r)
        if op in ('*', '/', '+', '-') and self.is_double(n):
            return '%s(%s, %s)' % ({'*': 'D_MUL', '/': 'D_DIV', '+': 'D_ADD', '-': 'D_SUB'}[op], le, re_)
        if op in ('<', '>', '<=', '>=', '==', '!=') and self.is_double(l) and self.is_double(r):
            return '%s(%s, %s)' % ({'<': 'D_LT', '>': 'D_GT', '<=': 'D_LE', '>=': 'D_GE', '==': 'D_EQ', '!=': 'D_NE'}[op], le, re_)
        if op == ',': return '(%s, %s)' % (le, re_)
        return '(%s %s %s)' % (le, op, re_)
    def e_CompoundAssignOperator(self, n):
        l, r = n['inner']; op = n['opcode']
        le, re_ = self.expr(l), self.expr(r)
        if op in ('*=', '/=', '+=', '-=') and self.is_double(n):
            return '(%s = %s(%s, %s))' % (le, {'*=': 'D_MUL', '/=': 'D_DIV', '+=': 'D_ADD', '-=': 'D_SUB'}[op], le, re_)
        return '(%s %s %s)' % (le, op, re_)
    def e_UnaryOperator(self, n):
        s = self.expr(n['inner'][0]); op = n['opcode']
        if n.get('isPostfix'): return '(%s%s)' % (s, op)
        if op == '-' and self.is_double(n): return 'D_NEG(%s)' % s
        if op == '&': return simp_addr(s)
        if op == '*': return '(*%s)' % s
        return '(%s%s)' % (op, s)
    def e_ConditionalOperator(self, n):
        c, a, b = n['inner']
        return '(%s ? %s : %s)' % (self.expr(c), self.expr(a), self.expr(b))
    def e_ArraySubscriptExpr(self, n):
        a, i = n['inner']
        return '%s[%s]' % (self.expr(a), self.expr(i))
    def e_InitListExpr(self, n):
        return '{' + ', '.join(self.expr(c) for c in n.get('inner', [])) + '}'
    def e_UnaryExprOrTypeTraitExpr(self, n):
        if n.get('name') == 'sizeof' and 'argType' in n:
            c, k = self.ctype(n['argType']); return 'sizeof(%s)' % c
        raise ExtractionBreak('sizeof/alignof expression')
    def e_CXXDefaultArgExpr(self, n): return self.default_arg(n)
    def e_CXXThrowExpr(self, n): raise ExtractionBreak('throw inside an expression')

    # ---------- statements
    def default_return(self):
        if self.fn_ret == 'void': return 'return;'
        return 'return __verif_dflt;'
    def throw_stmt(self, n, ind):
        self.has_throw = True
        cls = '?'
        sub = n.get('inner', [])
        if sub:
            t = sub[0].get('type', {}).get('qualType', '?')
            cls = re.sub(r'\W+', '_', t)
        return [ind + '{ VERIF_THROW("%s"); %s }' % (cls, self.default_return())]
    def stmt(self, n, ind):
        k = n.get('kind')
        if k in TRANSPARENT: return self.stmt(n['inner'][0], ind)
        if k is None: return []
        if k == 'CompoundStmt':
            out = [ind + '{']
            for c in n.get('inner', []): out += self.stmt(c, ind + '  ')
            out.append(ind + '}')
            return out
        if k == 'DeclStmt':
            out = []
            for d in n.get('inner', []):
                if d.get('kind') == 'VarDecl': out += self.vardecl(d, ind)
                elif d.get('kind') in ('TypedefDecl', 'TypeAliasDecl', 'UsingDecl', 'StaticAssertDecl'): pass
                else: raise ExtractionBreak('declaration ' + str(d.get('kind')) + ' inside a function')
            return out
        if k == 'IfStmt':
            inner = n['inner']
            fe = self.boost_foreach(n, ind)
            if fe is not None: return fe
            if n.get('hasInit') or n.get('hasVar'): raise ExtractionBreak('if with init/condition variable')
            ncalls = len(self.calls)
            ce = self.expr(inner[0])
            if any(c in self.maythrow for c in self.calls[ncalls:]):
                # a call in the condition may throw: evaluate the condition first, leave on an exception, branch afterwards
                self.ifconds = getattr(self, 'ifconds', 0) + 1
                t = '__verif_cond%d' % self.ifconds
                out = [ind + '{', ind + '  _Bool %s = (%s);' % (t, ce), ind + '  if (VERIF_thrown) { %s }' % self.default_return(), ind + '  if (%s)' % t]
                out += self.block(inner[1], ind + '  ')
                if n.get('hasElse') or len(inner) > 2:
                    out.append(ind + '  else')
                    out += self.block(inner[2], ind + '  ')
                out.append(ind + '}')
                return out
            out = [ind + 'if (%s)' % ce]
            out += self.block(inner[1], ind)
            if n.get('hasElse') or len(inner) > 2:
                out.append(ind + 'else')
                out += self.block(inner[2], ind)
            return out
        if k == 'ForStmt':
            init, condvar, cond, inc, body = n['inner']
            if condvar.get('kind'): raise ExtractionBreak('for with condition variable')
            self.loops += 1; me = self.loops
            out = [ind + '{']
            if init.get('kind'): out += self.stmt(init, ind + '  ')
            ce = self.expr(cond) if cond.get('kind') else '1'
            ie = self.expr(inc) if inc.get('kind') else ''
            out.append(ind + '  for (; %s; %s) /*@LOOP %d@*/' % (ce, ie, me))
            out += self.loop_contract(me, ind + '  ')
            out += self.block(body, ind + '  ')
            out.append(ind + '}')
            return out
        if k == 'WhileStmt':
            inner = n['inner']
            if n.get('hasVar'): raise ExtractionBreak('while with condition variable')
            self.loops += 1; me = self.loops
            out = [ind + 'while (%s) /*@LOOP %d@*/' % (self.expr(inner[0]), me)]
            out += self.loop_contract(me, ind)
            out += self.block(inner[1], ind)
            return out
        if k == 'DoStmt':
            body, cond = n['inner']
            self.loops += 1; me = self.loops
            out = [ind + 'do /*@LOOP %d@*/' % me]
            out += self.block(body, ind)
            out.append(ind + 'while (%s)' % self.expr(cond))
            out += self.loop_contract(me, ind)
            out.append(ind + ';')
            return out
        if k == 'ReturnStmt':
            inner = n.get('inner', [])
            if not inner: return [ind + 'return;']
            e = self.expr(inner[0])
            if self.fn_ret_is_ref: e = simp_addr(e)
            return [ind + 'return %s;' % e]
        if k == 'BreakStmt': return [ind + 'break;']
        if k == 'ContinueStmt': return [ind + 'continue;']
        if k == 'NullStmt': return [ind + ';']
        if k == 'CXXThrowExpr': return self.throw_stmt(n, ind)
        if k == 'SwitchStmt':
            inner = n['inner']
            out = [ind + 'switch (%s)' % self.expr(inner[0])]
            out += self.block(inner[1], ind)
            return out
        if k == 'CaseStmt':
            inner = n['inner']
            out = [ind + 'case %s:' % self.expr(inner[0])]
            out += self.stmt(inner[-1], ind + '  ') or [ind + '  ;']     # a label needs a statement (the labelled one may have been dropped)
            return out
        if k == 'DefaultStmt':
            return [ind + 'default:'] + (self.stmt(n['inner'][-1], ind + '  ') or [ind + '  ;'])
        if k.startswith('OMP') and k.endswith('Directive'):
            self.dropped.append(k)
            for c in n.get('inner', []):
                if c.get('kind') == 'CapturedStmt':
                    cd = c['inner'][0]
                    if cd.get('kind') == 'CapturedDecl':
                        for cc in cd.get('inner', []):
                            if cc.get('kind', '').endswith('Stmt'): return self.stmt(cc, ind)
                    return self.stmt(cd, ind)
            if k in ('OMPBarrierDirective', 'OMPTaskwaitDirective', 'OMPTaskyieldDirective', 'OMPFlushDirective'):
                return []          # stand-alone directive (no statement attached): dropped, recorded above
            raise ExtractionBreak('OpenMP directive without captured statement')
        if k == 'CXXTryStmt':
            raise ExtractionBreak('try/catch')
        if k == 'CXXForRangeStmt':
            raise ExtractionBreak('range-based for')
        # expression statement
        if self.is_stream(n):
            self.dropped.append('stream output'); return []
        sn = self.strip(n)
        if sn.get('kind') == 'CXXThrowExpr': return self.throw_stmt(sn, ind)
        if sn.get('castKind') == 'ToVoid':
            self.dropped.append('(void) expression (assert under NDEBUG)'); return []
        ncalls = len(self.calls)
        e = self.expr(n)
        # a call used as a statement: drop the lvalue wrapper of a returned reference
        if e.startswith('(*') and simp_addr(e) != '&' + e: e = simp_addr(e)
        out = [ind + e + ';']
        out += self.throw_check(ncalls, ind)
        return out
    def boost_foreach(self, n, ind):
        """BOOST_FOREACH(VAR, COL) BODY.  boost/foreach.hpp expands it to
             if (auto_any_t _foreach_colN = contain(COL, ..)) {} else if (auto_any_t _foreach_curN = begin(..)) {} else
             if (auto_any_t _foreach_endN = end(..)) {} else for (bool _foreach_continueN = true; ..&& !done(..); ..next(..))
               if (set_false(_foreach_continueN)) {} else for (VAR = deref(..); !_foreach_continueN; _foreach_continueN = true) BODY
           It is printed as ONE loop over the collection's own iterator (C = C type of COL, I = C type of its iterator):
             { I _foreach_itK = C_begin(&COL); for (; C_foreach_more(&COL, &_foreach_itK); I_inc(&_foreach_itK)) { VAR = *I_mul(&_foreach_itK); BODY } }"""
        def condvar(ifn, prefix):
            if ifn.get('kind') != 'IfStmt' or not ifn.get('hasVar'): return None
            ds = ifn['inner'][0]
            vd = ds.get('inner', [{}])[0] if ds.get('kind') == 'DeclStmt' else {}
            return vd if vd.get('kind') == 'VarDecl' and vd.get('name', '').startswith(prefix) else None
        def find_call(t, fname):
            if not isinstance(t, dict): return None
            if t.get('kind') == 'CallExpr':
                cal = self.strip_callee(t['inner'][0])
                if cal.get('kind') == 'DeclRefExpr' and cal.get('referencedDecl', {}).get('name') == fname: return t
            for c in t.get('inner', []):
                r = find_call(c, fname)
                if r is not None: return r
            return None
        vcol = condvar(n, '_foreach_col')
        if vcol is None: return None
        try:
            n2 = n['inner'][3]; vcur = condvar(n2, '_foreach_cur')
            n3 = n2['inner'][3]; vend = condvar(n3, '_foreach_end')
            f1 = n3['inner'][3]
            f2 = f1['inner'][4]['inner'][2]
            var = f2['inner'][0]['inner'][0]; body = f2['inner'][4]
            col = find_call(vcol, 'contain')['inner'][1]
            itq = find_call(vcur, 'begin')['type']
            itq = itq.get('desugaredQualType') or itq['qualType']
            assert vcur is not None and vend is not None and f1['kind'] == 'ForStmt' and f2['kind'] == 'ForStmt' and var['kind'] == 'VarDecl'
        except (KeyError, IndexError, TypeError, AssertionError):
            raise ExtractionBreak('BOOST_FOREACH expansion of unexpected shape')
        m = re.match(r'^(?:boost::foreach_detail_::)?auto_any<(.*)>$', itq.strip())
        if not m: raise ExtractionBreak('BOOST_FOREACH: iterator type not recognised in "%s"' % itq)
        ic, ik = self.tm.resolve(m.group(1).strip())
        cc, ck = self.ctype(self.obj_static_type(col))
        colp = simp_addr(self.expr(col))
        self.loops += 1; me = self.loops
        itn = '_foreach_it%d' % me
        out = [ind + '{', ind + '  %s %s = %s_begin(%s);' % (ic, itn, short(cc), colp)]
        out.append(ind + '  for (; %s_foreach_more(%s, &%s); %s_inc(&%s)) /*@LOOP %d@*/' % (short(cc), colp, itn, short(ic), itn, me))
        out += self.loop_contract(me, ind + '  ')
        out.append(ind + '  {')
        q = var['type'].get('qualType', '')
        deref = '%s_mul(&%s)' % (short(ic), itn)
        if self.is_ref(q) and self.param_mode(q) != 'value':
            c, k = self.tm.resolve(var['type'].get('desugaredQualType') or q)
            out.append(ind + '    %s%s = %s;' % (c if c.endswith('*') else c + ' ', var['name'], deref))
        else:
            if self.is_ref(q):
                c, k = self.tm.resolve(q.rstrip('&').strip()); self.byvalue_params.add(var['id'])
            else:
                c, k = self.ctype(var['type'])
            out.append(ind + '    %s %s = (*%s);' % (c, var['name'], deref))
        out += self.stmt(body, ind + '    ')
        out += [ind + '  }', ind + '}']
        return out
    def throw_check(self, ncalls, ind):
        if any(c in self.maythrow for c in self.calls[ncalls:]):
            return [ind + 'if (VERIF_thrown) { %s }' % self.default_return()]
        return []
    def block(self, n, ind):
        if n.get('kind') == 'CompoundStmt': return self.stmt(n, ind)
        return [ind + '{'] + self.stmt(n, ind + '  ') + [ind + '}']
    def loop_contract(self, k, ind):
        c = self.loop_contracts.get(k)
        if c is None: return []
        self.used_loops.add(k)
        return [ind + '  ' + l for l in c.strip().split('\n')]
    def hoist_throwing_args(self, top, ind):
        """`f(g(..), ..)` as a whole statement / initialiser where the ARGUMENT call g may throw: C++ leaves before f is entered.
        The argument is evaluated into a temporary first, followed by the exception check; returns those statements."""
        t = top
        while t.get('kind') in TRANSPARENT: t = t['inner'][0]
        if t.get('kind') in ('CXXConstructExpr', 'CXXTemporaryObjectExpr'): args = t.get('inner', [])
        elif t.get('kind') in ('CallExpr', 'CXXMemberCallExpr'): args = t.get('inner', [])[1:]
        else: return []
        out = []
        if not hasattr(self, 'subst'): self.subst = {}
        for a in args:
            b = a
            while b.get('kind') in TRANSPARENT or (b.get('kind') == 'ImplicitCastExpr' and b.get('castKind') == 'NoOp') or \
                  (b.get('kind') == 'CXXConstructExpr' and len(b.get('inner', [])) == 1):       # copy / move construction of the parameter from the call's result
                b = b['inner'][0]
            if b.get('kind') not in ('CallExpr', 'CXXMemberCallExpr') or b.get('id') is None: continue
            ncalls = len(self.calls)
            e = self.expr(b)
            if not any(c in self.maythrow for c in self.calls[ncalls:]): continue
            try: c, k = self.ctype(b['type'])
            except ExtractionBreak: continue
            if e.startswith('(*') and simp_addr(e) != '&' + e: continue       # returns a reference: not hoisted
            self.nhoist = getattr(self, 'nhoist', 0) + 1
            tmp = '__verif_arg%d' % self.nhoist
            out.append(ind + '%s %s = %s;' % (c, tmp, e))
            out.append(ind + 'if (VERIF_thrown) { %s }' % self.default_return())
            self.subst[b['id']] = tmp
        return out
    def vardecl(self, d, ind):
        q = d['type'].get('qualType', '')
        name = d['name']
        inits = [c for c in d.get('inner', []) if 'kind' in c and not c['kind'].endswith('Attr')]
        ncalls = len(self.calls)
        if self.is_ref(q):
            c, k = self.tm.resolve(d['type'].get('desugaredQualType') or q)
            inner_q = q.rstrip('&').strip()
            if self.param_mode(q) == 'value':
                # const reference to a scalar / small value: a copy has the same meaning for reads
                cc, kk = self.tm.resolve(inner_q)
                self.byvalue_params.add(d['id'])
                out = [ind + '%s %s = %s;' % (cc, name, self.expr(inits[0]))]
            else:
                out = [ind + '%s%s = %s;' % (c if c.endswith('*') else c + ' ', name, simp_addr(self.expr(inits[0])))]
            return out + self.throw_check(ncalls, ind)
        c, k = self.ctype(d['type'])
        decl = c + ' ' + name
        m = re.match(r'^(.*)\[(\d+)\]$', c)
        if m: decl = m.group(1) + ' ' + name + '[' + m.group(2) + ']'
        if d.get('storageClass') == 'static': decl = 'static ' + decl
        if not inits:
            return [ind + decl + ';']
        pre = self.hoist_throwing_args(inits[0], ind)
        return pre + [ind + '%s = %s;' % (decl, self.expr(inits[0]))] + self.throw_check(ncalls, ind)

    # ---------- functions
    def function(self, fn, cname, contract='', loop_contracts=None):
        self.loops = 0; self.loop_contracts = loop_contracts or {}; self.used_loops = set()
        self.byvalue_params = set(); self.calls = []; self.has_throw = False
        self.dropped = []
        ret, ptypes = fn_type_parts(fn['type']['qualType'])
        kind = fn['kind']
        params = []
        is_member = kind in ('CXXMethodDecl', 'CXXConstructorDecl', 'CXXConversionDecl', 'CXXDestructorDecl') and fn.get('storageClass') != 'static'
        if is_member and self.tu.index.get(fn.get('previousDecl'), {}).get('storageClass') == 'static':
            is_member = False      # out-of-class definition of a static member function: `static` is on the in-class declaration
        if is_member:
            rec = self.tu.record_of(fn)
            c, k = self.tm.lookup(self.tu.qualname(rec))
            params.append(c + ' *self')
        for p in fn.get('inner', []):
            if p.get('kind') != 'ParmVarDecl': continue
            q = p['type']['qualType']
            if self.param_mode(q) == 'value':
                if self.is_ref(q):
                    self.byvalue_params.add(p['id'])
                    c, k = self.tm.resolve(q.rstrip('&').strip())
                else:
                    c, k = self.ctype(p['type'])
                params.append(c + ' ' + p.get('name', '_unused%d' % len(params)))
            else:
                c, k = self.tm.resolve(q)
                params.append((c if c.endswith('*') else c + ' ') + p.get('name', '_unused%d' % len(params)))
        if kind == 'CXXConstructorDecl': ret = 'void'
        self.fn_ret_is_ref = self.is_ref(ret)
        rc = 'void' if ret == 'void' else self.tm.resolve(ret)[0]
        self.fn_ret = rc
        body = [c for c in fn['inner'] if c.get('kind') == 'CompoundStmt'][0]
        lines = []
        pre = []
        if kind == 'CXXConstructorDecl':
            for ci in fn['inner']:
                if ci.get('kind') != 'CXXCtorInitializer': continue
                if 'anyInit' in ci:
                    fname = ci['anyInit']['name']
                    fq = ci['anyInit']['type']['qualType']
                    e = self.expr(ci['inner'][0])
                    if self.is_ref(fq) and (self.tu.qualname(self.tu.record_of(fn)), fname) not in self.tm.embedded: e = simp_addr(e)
                    pre.append('  self->%s = %s;' % (fname, e))
                elif 'baseInit' in ci:
                    bc, bk = self.ctype(ci['baseInit'])
                    sub = ci['inner'][0]
                    if sub.get('kind') in TRANSPARENT: sub = self.strip(sub)
                    al = self.args(sub.get('inner', []), None)
                    pre.append('  %s_ctor%d(%s);' % (short(bc), len(al), ', '.join(['(%s *)self' % bc] + al)))
                else:
                    raise ExtractionBreak('constructor initializer of unknown form')
        blines = self.stmt(body, '')
        wrapper = None
        if kind == 'CXXConstructorDecl':
            iname = cname.replace('_ctor', '_init') if '_ctor' in cname else cname + '_init'
            selft = params[0][:-len(' *self')]
            pn = [x.split()[-1].lstrip('*') for x in params[1:]]
            wrapper = '%s %s(%s)\n{\n  %s __s;\n  %s(%s);\n  return __s;\n}' % (selft, cname, ', '.join(params[1:]) if params[1:] else 'void', selft, iname, ', '.join(['&__s'] + pn))
            cname = iname
        sig = '%s %s(%s)' % (rc, cname, ', '.join(params) if params else 'void')
        lines.append(sig)
        if contract.strip(): lines += [l for l in contract.strip().split('\n')]
        lines.append('{')
        if rc != 'void' and self.has_throw or (rc != 'void' and any(c in self.maythrow for c in self.calls)):
            lines.append('  %s __verif_dflt;' % rc)
        lines += pre
        lines += ['  ' + l for l in blines[1:-1]]
        lines.append('}')
        missing = set(self.loop_contracts) - self.used_loops
        if missing:
            raise ExtractionBreak('%s: spec has loop contracts for loops %s but the function has %d loops' % (cname, sorted(missing), self.loops))
        if wrapper: lines.append(wrapper)
        return '\n'.join(lines), dict(loops=self.loops, dropped=list(self.dropped), calls=sorted(set(self.calls)), has_throw=self.has_throw, sig=sig)

    # ---------- one statement of a function as a function of its own
    def fragment(self, fn, path, cname, contract='', loop_contracts=None):
        """print the statement of `fn` selected by `path` (child indices among the statement children of a
        CompoundStmt / `then` / `else` / `body`, separated by '/') as `void cname(self?, free variables...)`.
        Free variables (locals / parameters of fn declared outside the statement) become parameters: references keep
        the parameter convention of function(), everything else is passed BY ADDRESS (the statement may write it)."""
        self.loops = 0; self.loop_contracts = loop_contracts or {}; self.used_loops = set()
        self.byvalue_params = set(); self.calls = []; self.has_throw = False
        self.dropped = []; self.frag_byref = set()
        node = [c for c in fn['inner'] if c.get('kind') == 'CompoundStmt'][0]
        for step in [x for x in path.split('/') if x]:
            kids = [c for c in node.get('inner', []) if isinstance(c, dict)]
            if step in ('then', 'else'):
                if node.get('kind') != 'IfStmt': raise ExtractionBreak('fragment path: %s of a %s' % (step, node.get('kind')))
                idx = 1 if step == 'then' else 2
                if idx >= len(kids): raise ExtractionBreak('fragment path: no %s branch' % step)
                node = kids[idx]
            elif step == 'body':
                if node.get('kind') not in ('ForStmt', 'WhileStmt', 'DoStmt'): raise ExtractionBreak('fragment path: body of a %s' % node.get('kind'))
                node = kids[0] if node.get('kind') == 'DoStmt' else kids[-1]
            else:
                if node.get('kind') != 'CompoundStmt': raise ExtractionBreak('fragment path: index into a %s' % node.get('kind'))
                try: node = kids[int(step)]
                except (ValueError, IndexError): raise ExtractionBreak('fragment path: bad step "%s"' % step)
        declared = set(); free = []; uses_this = [False]
        def walk(n):
            if not isinstance(n, dict): return
            if n.get('kind') == 'VarDecl' and 'id' in n: declared.add(n['id'])
            if n.get('kind') == 'CXXThisExpr': uses_this[0] = True
            if n.get('kind') == 'DeclRefExpr':
                r = n.get('referencedDecl', {})
                if r.get('kind') in ('VarDecl', 'ParmVarDecl') and r['id'] not in [f['id'] for f in free]: free.append(r)
            for c in n.get('inner', []): walk(c)
        walk(node)
        params = []
        if uses_this[0]:
            rec = self.tu.record_of(fn)
            c, k = self.tm.lookup(self.tu.qualname(rec))
            params.append(c + ' *self')
        for r in free:
            if r['id'] in declared: continue
            d = self.tu.index.get(r['id'], r)
            if d.get('storageClass') == 'static' or self.tu.parent.get(d.get('id'), {}).get('kind') in ('TranslationUnitDecl', 'NamespaceDecl'):
                continue                      # globals stay globals
            q = d['type']['qualType']
            if self.is_ref(q):
                if self.param_mode(q) == 'value':
                    self.byvalue_params.add(r['id'])
                    c, k = self.tm.resolve(q.rstrip('&').strip())
                    params.append(c + ' ' + r['name'])
                else:
                    c, k = self.tm.resolve(q)
                    params.append((c if c.endswith('*') else c + ' ') + r['name'])
            else:
                c, k = self.ctype(d['type'])
                self.frag_byref.add(r['id'])
                params.append(c + ' *' + r['name'])
        self.fn_ret_is_ref = False; self.fn_ret = 'void'
        blines = self.block(node, '')
        sig = 'void %s(%s)' % (cname, ', '.join(params) if params else 'void')
        lines = [sig]
        if contract.strip(): lines += [l for l in contract.strip().split('\n')]
        lines += blines
        missing = set(self.loop_contracts) - self.used_loops
        if missing:
            raise ExtractionBreak('%s: spec has loop contracts for loops %s but the statement has %d loops' % (cname, sorted(missing), self.loops))
        self.frag_byref = set()
        return '\n'.join(lines), dict(loops=self.loops, dropped=list(self.dropped), calls=sorted(set(self.calls)), has_throw=self.has_throw, sig=sig)

    # ---------- records
    def all_fields(self, rec, seen=None):
        """fields of a record including those of its bases (flattened, base first)"""
        out = []
        for b in rec.get('bases', []):
            bq = b['type'].get('desugaredQualType') or b['type']['qualType']
            try:
                brec = self.tu.find_record(self.tm.strip_cv(bq))
            except ExtractionBreak:
                continue
            out += self.all_fields(brec)
        for c in rec.get('inner', []):
            if c.get('kind') == 'FieldDecl': out.append(c)
        return out
    def struct(self, rec, cname, only=None, skip=(), extra='', embed=()):
        lines = ['%s {' % (cname if cname.startswith('struct ') else 'struct ' + cname)]
        info = []
        links = self.links = []
        for f in self.all_fields(rec):
            if only is not None and f['name'] not in only: continue
            if f['name'] in skip: continue
            try:
                if f['name'] in embed:
                    # the spec models this member as a LINK to another object (embed=): record whether the declaration still is one
                    # (reference, pointer or shared_ptr) -- ./check turns the list into assertions (a link that became a by-value copy is a
                    # snapshot taken at construction: later changes of the referent are no longer seen)
                    q = f['type']['qualType'].strip()
                    links.append(dict(field=f['name'], type=q, is_link=bool(q.endswith('&') or q.endswith('*') or 'shared_ptr<' in q)))
                if f['name'] in embed and self.is_ref(f['type']['qualType']):
                    c, k = self.tm.resolve(f['type']['qualType'].rstrip('&').strip())
                    frec = self.tu.record_of(f)
                    self.tm.embedded.add((self.tu.qualname(frec), f['name']))
                    info.append('reference member %s modelled as an embedded object' % f['name'])
                else:
                    c, k = self.ctype(f['type'])
            except ExtractionBreak as e:
                info.append('field %s skipped: %s' % (f['name'], e)); continue
            m = re.match(r'^(.*)\[(\d+)\]$', c)
            if m: lines.append('  %s %s[%s];' % (m.group(1), f['name'], m.group(2)))
            else: lines.append('  %s%s;' % (c if c.endswith('*') else c + ' ', f['name']))
        if extra: lines += ['  ' + l for l in extra.strip().split('\n')]
        lines.append('};')
        return '\n'.join(lines), info
    def enum(self, en):
        items = []
        for c in en.get('inner', []):
            if c.get('kind') == 'EnumConstantDecl':
                val = None
                for cc in c.get('inner', []):
                    v = self.const_value(cc)
                    if v is not None: val = v
                items.append(c['name'] + (' = %s' % val if val is not None else ''))
        return 'enum %s { %s };' % (en.get('name', ''), ', '.join(items))
    def const_value(self, n):
        if n.get('kind') == 'ConstantExpr' and 'value' in n: return n['value']
        if n.get('kind') == 'IntegerLiteral': return n['value']
        for c in n.get('inner', []):
            v = self.const_value(c)
            if v is not None: return v
        return None
    def global_var(self, v, cname=None):
        c, k = self.ctype(v['type'])
        inits = [x for x in v.get('inner', []) if 'kind' in x and (x['kind'].endswith('Expr') or x['kind'] in TRANSPARENT)]
        m = re.match(r'^(.*)\[(\d+)\]$', c)
        name = cname or v['name']
        decl = (m.group(1) + ' ' + name + '[' + m.group(2) + ']') if m else c + ' ' + name
        return 'const %s = %s;' % (decl, self.init_expr(inits[0]))
    def init_expr(self, n):
        """initializer of a global: aggregates of constants"""
        n = self.strip(n)
        if n.get('kind') == 'InitListExpr':
            return '{' + ', '.join(self.init_expr(c) for c in n.get('inner', [])) + '}'
        if n.get('kind') in ('CXXConstructExpr', 'CXXTemporaryObjectExpr', 'CXXFunctionalCastExpr'):
            args = n.get('inner', [])
            if n.get('kind') == 'CXXFunctionalCastExpr': return self.init_expr(args[0])
            if len(args) == 1:
                return self.init_expr(args[0])
            return '{' + ', '.join(self.init_expr(c) for c in args) + '}'
        return self.expr(n)

def sha(s):
    return hashlib.sha256(s.encode()).hexdigest()[:16]
