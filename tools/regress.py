#!/usr/bin/env python3
"""re-weave every spec file (extractor regression after a change to ast2c.py / weave.py)"""
import glob, os, subprocess, sys, concurrent.futures as cf
V = os.path.dirname(os.path.dirname(os.path.abspath(__file__)))
def one(f):
    out = os.path.join(V, 'build', 'regress_' + os.path.basename(f))
    os.makedirs(os.path.dirname(out), exist_ok=True)
    p = subprocess.run([sys.executable, os.path.join(V, 'tools', 'weave.py'), f, out], capture_output=True, text=True)
    if p.returncode == 0:
        q = subprocess.run(['goto-cc', '-c', out, '-o', out + '.o'], capture_output=True, text=True)
        if q.returncode != 0: return f, 'goto-cc: ' + (q.stderr + q.stdout)[-400:]
    return f, (p.stdout + p.stderr).strip() if p.returncode else 'ok'
with cf.ThreadPoolExecutor(8) as ex:
    bad = 0
    for f, r in ex.map(one, sorted(glob.glob(os.path.join(V, 'specs', '*.c')))):
        print(os.path.basename(f), r[:600]); bad += r != 'ok'
sys.exit(1 if bad else 0)
