#!/usr/bin/env python3
"""try_mutant.py <spec.c> <harness> <repo-relative file> <old text> <new text> [--wt DIR]
Applies a textual mutation to a scratch worktree of /repo (never /repo itself), re-extracts, runs one harness,
prints the verdict and the failing obligations.  Exit 0 iff the mutant is KILLED (a named obligation fails)."""
import sys, os, subprocess, json, shutil
V = os.path.dirname(os.path.dirname(os.path.abspath(__file__)))
spec, harness, rel, old, new = sys.argv[1:6]
wt = sys.argv[sys.argv.index('--wt') + 1] if '--wt' in sys.argv else '/var/tmp/wt-mut-%d' % os.getpid()
subprocess.run(['git', '-C', '/repo', 'worktree', 'add', '--detach', wt, 'HEAD'], capture_output=True)
try:
    p = os.path.join(wt, rel); s = open(p).read()
    if s.count(old) != 1: print('MUTATION TEXT occurs %d times' % s.count(old)); sys.exit(3)
    open(p, 'w').write(s.replace(old, new))
    out = os.path.join(V, 'build', 'mut_%d_' % os.getpid() + os.path.basename(spec))
    env = dict(os.environ, VERIF_REPO=wt)
    r = subprocess.run([sys.executable, os.path.join(V, 'tools', 'weave.py'), spec, out], capture_output=True, text=True, env=env)
    if r.returncode: print('EXTRACTION BREAK (undecided):', r.stdout[-500:]); sys.exit(2)
    r = subprocess.run([sys.executable, os.path.join(V, 'tools', 'run_cbmc.py'), out, harness], capture_output=True, text=True)
    j = json.loads(r.stdout)
    print(j['verdict'], j['obligations'], j['discharged'], j['solver_s'], j['reason'][:300])
    for f in j['failed'][:8]: print('   ', f['obligation'], '|', f['description'][:110])
    for f in (out, out + '.meta.json'):
        if os.path.exists(f): os.remove(f)
    sys.exit(0 if j['verdict'] == 'fail' else 1)
finally:
    subprocess.run(['git', '-C', '/repo', 'worktree', 'remove', '--force', wt], capture_output=True)
