#!/usr/bin/env python3
"""replace the seeded-change table in DESIGN.md by seeded/TABLE.md (run tools/seed_index.py first)"""
import os
V = os.path.dirname(os.path.dirname(os.path.abspath(__file__)))
d = open(os.path.join(V, 'DESIGN.md')).read(); t = open(os.path.join(V, 'seeded', 'TABLE.md')).read().rstrip()
a = d.index('<!-- SEED-TABLE-BEGIN -->') + len('<!-- SEED-TABLE-BEGIN -->'); b = d.index('<!-- SEED-TABLE-END -->')
open(os.path.join(V, 'DESIGN.md'), 'w').write(d[:a] + '\n' + t + '\n' + d[b:])
