#!/usr/bin/env python3
"""Generate /verif/MANIFEST.json from /verif/claims.json (per-property texts) and the spec files."""
import json, os, sys, glob, re
VERIF = os.path.dirname(os.path.dirname(os.path.abspath(__file__)))
claims = json.load(open(os.path.join(VERIF, 'claims.json')))
props = [json.loads(l) for l in open(os.path.join(VERIF, 'properties.jsonl')) if l.strip()]
# which properties have harnesses
served = set()
for f in glob.glob(os.path.join(VERIF, 'specs', '*.c')):
    for l in open(f):
        if l.startswith('//@harness'):
            m = re.search(r'props=(\S+)', l)
            if m: served |= set(m.group(1).split(','))
checks = []; na = []
for p in props:
    pid = p['id']; c = claims.get(pid, {})
    if c.get('claim') and pid in served:
        checks.append(dict(property_id=pid, quick_cmd='./check %s --tier quick' % pid, thorough_cmd='./check %s --tier thorough' % pid,
                           evidence_file='/verif/evidence/%s.json' % pid, replay_cmd_template='./check --replay {path}', engine='cbmc-contracts',
                           level_claimed=dict(category='proof', text=c['text'], design_ref=c.get('design_ref', 'DESIGN.md section 4')),
                           level_note=c['note'], technique='contract-based deductive verification: CBMC 6.11 function contracts + loop contracts (goto-instrument --dfcc) on the real functions extracted from clang\'s typed AST on every run'))
    else:
        na.append(dict(property_id=pid, reason=c.get('na_reason', 'contracts designed (DESIGN.md section 4) but not built')))
m = dict(version=1,
         setup_cmd='./setup.sh',
         hooks=dict(guard='POMEROL_VERIF', enable='none needed: contracts live in /verif, functions are extracted from the unmodified sources', 
                    baseline_off_cmd='cmake --build /repo/_build && OMPI_ALLOW_RUN_AS_ROOT=1 OMPI_ALLOW_RUN_AS_ROOT_CONFIRM=1 ctest --test-dir /repo/_build -j8 --timeout 900', source_commits=[], add_only=True),
         engines=[dict(name='cbmc-contracts', path='/verif/check', serves_properties=[c['property_id'] for c in checks],
                       kind_free_text='clang-AST extraction of the real C++ functions to C (tools/ast2c.py), contracts woven from specs/*.c (tools/weave.py), goto-instrument --dfcc contract instrumentation, cbmc SAT back end (tools/run_cbmc.py)')],
         checks=checks, not_applicable=na,
         notes='Exit codes of ./check: 0 pass, 1 VIOLATION, 2 UNDECIDED (extraction break / timeout / vacuity; never a violation). Known findings: /verif/known_findings.json.')
json.dump(m, open(os.path.join(VERIF, 'MANIFEST.json'), 'w'), indent=1)
print('MANIFEST: %d checks, %d not applicable' % (len(checks), len(na)))
